/* mi_verif_hooks.h -- included twice from /repo/include/mimalloc/atomic.h when the
   allocator is compiled with  -DMI_VERIF_HOOKS='"/verif/sim/mi_verif_hooks.h"'.

   part 1 (after the C11/C++ atomics selection): every `mi_atomic(name)(...)` becomes
          "scheduling point, then the real C11 operation".
   part 2 (end of atomic.h): yield and the lock primitives go to the simulator.

   Correctness conditions of these macros (see DESIGN.md section 3.1):
   * every argument is evaluated exactly once (bitmap.c passes `field++`);
   * the real operation is performed with the memory orders the caller asked for;
   * a weak CAS may additionally fail spuriously when the simulator says so: it then
     writes nothing and stores the current value into *expected (C11 7.17.7.4).
*/
#if MI_VERIF_HOOKS_PART == 1
#ifndef MI_VERIF_HOOKS_PART1_DONE
#define MI_VERIF_HOOKS_PART1_DONE

#include <stdbool.h>
#include <stddef.h>
#include <stdint.h>

#ifdef __cplusplus
#error "the verification hooks are written for a C build of mimalloc"
#endif

typedef struct mi_sim_site_s {
  const char* file;
  const char* func;   /* filled in lazily by the simulator */
  int         line;
  int         kind;
  int         id;     /* 0 = not registered yet */
  int         flags;
} mi_sim_site_t;

enum {
  MI_SIM_LOAD = 1, MI_SIM_STORE, MI_SIM_XCHG, MI_SIM_FADD, MI_SIM_FSUB, MI_SIM_FAND, MI_SIM_FOR,
  MI_SIM_CAS_STRONG, MI_SIM_CAS_WEAK, MI_SIM_YIELD, MI_SIM_LOCK, MI_SIM_TRYLOCK, MI_SIM_UNLOCK
};

void   mi_sim_point(mi_sim_site_t* site, const char* func, const volatile void* addr);
bool   mi_sim_cas_spurious(mi_sim_site_t* site);
void   mi_sim_cas_result(mi_sim_site_t* site, bool success);
size_t mi_sim_tid(void);
void   mi_sim_yield(mi_sim_site_t* site, const char* func);
bool   mi_sim_lock_try_acquire(mi_sim_site_t* site, const char* func, void* lock);
void   mi_sim_lock_acquire(mi_sim_site_t* site, const char* func, void* lock);
void   mi_sim_lock_release(mi_sim_site_t* site, const char* func, void* lock);

#define MI_SIM_SITE(kind_)  static mi_sim_site_t _mi_site = { __FILE__, NULL, __LINE__, kind_, 0, 0 }

#undef  mi_atomic
#define mi_atomic(name)  mi_sim_atomic_##name

/* store-buffer mode (SimConfig.sb_p > 0): a store that is not seq_cst may stay in the storing thread's buffer past that thread's next
   few atomic loads (store->load reordering, which x86-TSO and the C11 release/acquire orders both allow); the thread's own loads
   are served from the buffer, every other scheduling point of the thread drains it first */
extern int mi_sim_sb_active;
bool   mi_sim_store_buffer(mi_sim_site_t* site, volatile void* addr, size_t size, uint64_t val);
bool   mi_sim_load_forward(const volatile void* addr, uint64_t* val);

#define mi_sim_atomic_load_explicit(p,mo) __extension__({ \
  MI_SIM_SITE(MI_SIM_LOAD); __typeof__(p) _sp = (p); uint64_t _sfw = 0; \
  mi_sim_point(&_mi_site, __func__, (const volatile void*)_sp); \
  (mi_sim_sb_active && mi_sim_load_forward((const volatile void*)_sp, &_sfw)) \
     ? (__typeof__(atomic_load_explicit(_sp, mo)))(uintptr_t)_sfw : atomic_load_explicit(_sp, mo); })

#define mi_sim_atomic_store_explicit(p,x,mo) __extension__({ \
  MI_SIM_SITE(MI_SIM_STORE); __typeof__(p) _sp = (p); \
  __typeof__(atomic_load_explicit(_sp, memory_order_relaxed)) _sv = (x); \
  mi_sim_point(&_mi_site, __func__, (const volatile void*)_sp); \
  if (!(mi_sim_sb_active && (mo) != memory_order_seq_cst && sizeof(*_sp) <= 8 && \
        mi_sim_store_buffer(&_mi_site, (volatile void*)_sp, sizeof(*_sp), (uint64_t)(uintptr_t)_sv))) \
    atomic_store_explicit(_sp, _sv, mo); })

#define mi_sim_atomic_exchange_explicit(p,x,mo) __extension__({ \
  MI_SIM_SITE(MI_SIM_XCHG); __typeof__(p) _sp = (p); \
  mi_sim_point(&_mi_site, __func__, (const volatile void*)_sp); \
  atomic_exchange_explicit(_sp, x, mo); })

#define mi_sim_atomic_fetch_add_explicit(p,x,mo) __extension__({ \
  MI_SIM_SITE(MI_SIM_FADD); __typeof__(p) _sp = (p); \
  mi_sim_point(&_mi_site, __func__, (const volatile void*)_sp); \
  atomic_fetch_add_explicit(_sp, x, mo); })

#define mi_sim_atomic_fetch_sub_explicit(p,x,mo) __extension__({ \
  MI_SIM_SITE(MI_SIM_FSUB); __typeof__(p) _sp = (p); \
  mi_sim_point(&_mi_site, __func__, (const volatile void*)_sp); \
  atomic_fetch_sub_explicit(_sp, x, mo); })

#define mi_sim_atomic_fetch_and_explicit(p,x,mo) __extension__({ \
  MI_SIM_SITE(MI_SIM_FAND); __typeof__(p) _sp = (p); \
  mi_sim_point(&_mi_site, __func__, (const volatile void*)_sp); \
  atomic_fetch_and_explicit(_sp, x, mo); })

#define mi_sim_atomic_fetch_or_explicit(p,x,mo) __extension__({ \
  MI_SIM_SITE(MI_SIM_FOR); __typeof__(p) _sp = (p); \
  mi_sim_point(&_mi_site, __func__, (const volatile void*)_sp); \
  atomic_fetch_or_explicit(_sp, x, mo); })

#define mi_sim_atomic_compare_exchange_strong_explicit(p,e,d,ms,mf) __extension__({ \
  MI_SIM_SITE(MI_SIM_CAS_STRONG); __typeof__(p) _sp = (p); __typeof__(e) _se = (e); \
  __typeof__(*_se) _sd = (d); \
  mi_sim_point(&_mi_site, __func__, (const volatile void*)_sp); \
  bool _sr = atomic_compare_exchange_strong_explicit(_sp, _se, _sd, ms, mf); \
  mi_sim_cas_result(&_mi_site, _sr); _sr; })

#define mi_sim_atomic_compare_exchange_weak_explicit(p,e,d,ms,mf) __extension__({ \
  MI_SIM_SITE(MI_SIM_CAS_WEAK); __typeof__(p) _sp = (p); __typeof__(e) _se = (e); \
  __typeof__(*_se) _sd = (d); bool _sr; \
  mi_sim_point(&_mi_site, __func__, (const volatile void*)_sp); \
  if (mi_sim_cas_spurious(&_mi_site)) { *_se = atomic_load_explicit(_sp, mf); _sr = false; } \
  else { _sr = atomic_compare_exchange_strong_explicit(_sp, _se, _sd, ms, mf); } \
  mi_sim_cas_result(&_mi_site, _sr); _sr; })

#endif /* part 1 once */

#elif MI_VERIF_HOOKS_PART == 2
#ifndef MI_VERIF_HOOKS_PART2_DONE
#define MI_VERIF_HOOKS_PART2_DONE

/* atomic.h has just defined the static inline functions; later uses go to the simulator */
#define mi_atomic_yield()  __extension__({ MI_SIM_SITE(MI_SIM_YIELD); mi_sim_yield(&_mi_site, __func__); })

#define mi_lock_try_acquire(l) __extension__({ MI_SIM_SITE(MI_SIM_TRYLOCK); mi_sim_lock_try_acquire(&_mi_site, __func__, (void*)(l)); })
#define mi_lock_acquire(l)     __extension__({ MI_SIM_SITE(MI_SIM_LOCK);    mi_sim_lock_acquire(&_mi_site, __func__, (void*)(l)); })
#define mi_lock_release(l)     __extension__({ MI_SIM_SITE(MI_SIM_UNLOCK);  mi_sim_lock_release(&_mi_site, __func__, (void*)(l)); })
/* mi_lock_init / mi_lock_done keep operating on the (unused) pthread mutex */

#endif /* part 2 once */
#endif
