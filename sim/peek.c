/* peek.c -- compiled once per build with the flags of the code under test (it needs the layout of mimalloc's internal types).
   What a program that can read (or guess) its heap's metadata knows about the page of a block: the keys its free-list links are
   encoded with and the page's area. Used only by the C17 "aimed forged link" operation; nothing here modifies the allocator. */
#include "mimalloc.h"
#include "mimalloc/internal.h"

int sim_peek_page(const void* p, uintptr_t keys[2], void** area_start, size_t* area_size) {
#ifdef MI_ENCODE_FREELIST
  const mi_segment_t* seg = _mi_ptr_segment(p);
  if (seg == NULL) return 0;
  const mi_page_t* page = _mi_segment_page_of(seg, p);
  keys[0] = page->keys[0]; keys[1] = page->keys[1];
  size_t psize = 0;
  uint8_t* start = _mi_segment_page_start(seg, page, &psize);
  *area_start = start; *area_size = psize;
  return 1;
#else
  (void)p; (void)keys; (void)area_start; (void)area_size;
  return 0;
#endif
}
