/* peek.c -- compiled once per build with the flags of the code under test (it needs the layout of mimalloc's internal types).
   What a program that can read (or guess) its heap's metadata knows about the page of a block: the keys its free-list links are
   encoded with and the page's area. Used only by the C17 "aimed forged link" operation; nothing here modifies the allocator. */
#include "mimalloc.h"
#include "mimalloc/internal.h"

int sim_peek_page(const void* p, uintptr_t keys[2], void** area_start, size_t* area_size) {
#ifdef MI_ENCODE_FREELIST
  const mi_segment_t* seg = _mi_ptr_segment(p);
  if (seg == NULL) return 0;
  const mi_page_t* page = _mi_segment_page_of(seg, p);
  keys[0] = page->keys[0]; keys[1] = page->keys[1];
  size_t psize = 0;
  uint8_t* start = _mi_segment_page_start(seg, page, &psize);
  *area_start = start; *area_size = psize;
  return 1;
#else
  (void)p; (void)keys; (void)area_start; (void)area_size;
  return 0;
#endif
}

/* Latent undersized small allocation: a request size (bytes) whose entry in the heap's direct small-page table points at a page that has a
   free block but whose blocks are smaller than that entry's size -- the very next mi_heap_malloc of that size would hand out an undersized
   block. Read-only; the harness then performs that allocation and judges it with its ordinary oracle (nothing is reported from here). */
size_t sim_peek_stale_direct(const mi_heap_t* heap) {
  if (heap == NULL || heap == &_mi_heap_empty) return 0;
  for (size_t w = 1; w < MI_PAGES_DIRECT; w++) {
    const mi_page_t* page = heap->pages_free_direct[w];
    if (page == NULL || page == &_mi_page_empty || page->free == NULL) continue;
    if (page->block_size < w * sizeof(void*)) {
      const size_t bytes = w * sizeof(void*);
      if (bytes <= MI_PADDING_SIZE) continue;
      const size_t req = bytes - MI_PADDING_SIZE;
      if (req <= MI_SMALL_SIZE_MAX) return req;
    }
  }
  return 0;
}
