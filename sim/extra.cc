// extra.cc -- oracles for C06 (malformed requests), C17 (misuse), C18 (purge by time); filled in step by step
#include "harness.h"
#include <string.h>

// C17: hardened builds detect double free, overflow and free-list corruption (secure and debug builds only)
size_t heap_used_sum(mi_heap_t* h, size_t* pages);
bool g_busy_pub(int slot);
bool forced_abandon_possible_pub();
extern "C" int sim_peek_page(const void* p, uintptr_t keys[2], void** area_start, size_t* area_size);
static bool local_plain_small(Block* b) {
  return b && b->prog == T->prog && b->heap >= 0 && H.heaps[b->heap].prog == T->prog && b->align == 0 && b->offset == 0 && !b->odd_origin && b->usable == b->req && b->usable >= 8 && b->usable + 8 <= 8192 && b->filled;
}
static int take_error(int bit) { int n = (T->got_err_mask & bit) ? T->got_err_count : 0; T->got_err_mask &= ~bit; if (!T->got_err_mask) T->got_err_count = 0; return n; }

static bool has_live_neighbour(const uint8_t* p, size_t usable, int heap, const Block* self) {
  for (auto& kv : H.live) { Block* o = kv.second; if (o != self && o->prog == T->prog && o->heap == heap && (((uintptr_t)o->p ^ (uintptr_t)p) >> 16) == 0 && o->usable == usable) return true; }
  return false;
}

void oracle_misuse_op(const Op& op) {
  if (!is_padded_build()) { H.ops_noop++; return; }
  if (op.code == OP_double_free && (op.b & 2)) {
    // fire: the second free of a block that was freed (once) earlier and whose address has not been handed out since
    for (size_t i = 0; i < H.zombies.size(); i++) {
      Harness::Zombie z = H.zombies[i];
      if (z.prog != T->prog) continue;
      H.zombies.erase(H.zombies.begin() + (long)i);
      if (z.reissued || z.heap < 0 || !H.heaps[z.heap].alive || !has_live_neighbour(z.p, z.usable, z.heap, nullptr)) { H.ops_noop++; return; }
      mi_heap_t* zh = heap_ptr(z.heap);
      const size_t used0 = heap_used_sum(zh, nullptr);
      H.misuse_expected++;
      expect_errors(EB_EAGAIN);
      mi_free(z.p);
      int n = take_error(EB_EAGAIN);
      if (n != 1) sim_violation("double_free_undetected", "a second mi_free(%p) some operations after the first one (the block was not handed out in between and its page still holds another live block) was %s (EAGAIN reported %d times)", (void*)z.p, n == 0 ? "not reported" : "reported more than once", n);
      if (heap_used_sum(zh, nullptr) != used0) sim_violation("double_free_effect", "a detected double free changed the heap's used count (%zu -> %zu)", used0, heap_used_sum(zh, nullptr));
      H.misuse_detected++; probe(PR_misuse_detected);
      verify_all_live("after a detected late double free");
      return;
    }
    H.ops_noop++; return;
  }
  Block* b = (op.slot >= 0 && op.slot < (int)H.slots.size()) ? H.slots[op.slot] : nullptr;
  // the overflow check also applies to blocks of fewer than 8 bytes and to blocks that another thread allocated (checked on the cross-thread free path)
  const bool overflow_ok = (op.code == OP_overflow_byte) && b && b->heap >= 0 && b->align == 0 && b->offset == 0 && !b->odd_origin && b->usable == b->req && b->req >= 1 && b->filled;
  if (!overflow_ok && !local_plain_small(b)) { H.ops_noop++; return; }
  mi_heap_t* h = heap_ptr(b->heap);
  if (op.code == OP_double_free) {
    // another live block of the same thread in the same 64 KiB page keeps the area alive
    bool neighbour = false;
    for (auto& kv : H.live) { Block* o = kv.second; if (o != b && o->prog == T->prog && o->heap == b->heap && (((uintptr_t)o->p ^ (uintptr_t)b->p) >> 16) == 0 && o->usable == b->usable) neighbour = true; }
    if (!neighbour) { H.ops_noop++; return; }
    block_verify(b, "before the double free"); model_remove(b); H.slots[b->slot] = nullptr;
    if (op.b & 1) {   // arm: only the first free now; a later 'fire' performs the second one
      H.zombies.push_back(Harness::Zombie{b->p, b->usable, b->heap, T->prog, false});
      void* p1 = b->p; delete b; mi_free(p1); return;
    }
    if (op.b & 4) {
      // first free the block with the highest address among the live neighbours in the page (the page's last block when it is
      // full): the freed block's link then points at it, at the very end of the page
      Block* last = nullptr;
      for (auto& kv : H.live) { Block* o = kv.second; if (o != b && o->prog == T->prog && o->heap == b->heap && (((uintptr_t)o->p ^ (uintptr_t)b->p) >> 16) == 0 && o->usable == b->usable && o->p > b->p && (!last || o->p > last->p) && o->slot >= 0 && !g_busy_pub(o->slot)) last = o; }
      if (last) {
        int others = 0; for (auto& kv : H.live) { Block* o = kv.second; if (o != b && o != last && o->prog == T->prog && o->heap == b->heap && (((uintptr_t)o->p ^ (uintptr_t)b->p) >> 16) == 0 && o->usable == b->usable) others++; }
        if (others > 0) { block_verify(last, "before free"); model_remove(last); H.slots[last->slot] = nullptr; void* lp = last->p; delete last; mi_free(lp); }
      }
    }
    const size_t used0 = heap_used_sum(h, nullptr);
    void* p = b->p; delete b;
    H.misuse_expected++;
    mi_free(p);
    expect_errors(EB_EAGAIN);
    mi_free(p);                               // the misuse
    int n = take_error(EB_EAGAIN);
    if (n != 1) sim_violation("double_free_undetected", "second mi_free(%p) of a thread-local block whose page still holds another live block was %s (EAGAIN reported %d times)", p, n == 0 ? "not reported" : "reported more than once", n);
    const size_t used1 = heap_used_sum(h, nullptr);
    if (used1 + 1 != used0) sim_violation("double_free_effect", "after a detected double free the heap's used count went from %zu to %zu (expected exactly one block less)", used0, used1);
    H.misuse_detected++; probe(PR_misuse_detected);
    verify_all_live("after a detected double free");
  }
  else if (op.code == OP_overflow_byte) {
    block_verify(b, "before the overflow"); model_remove(b); H.slots[b->slot] = nullptr;
    uint8_t* q = b->p + b->req; const uint8_t oldv = *q; *q = (uint8_t)(oldv ^ (uint8_t)(1 + (op.a % 255)));   // a different (foreign) value
    // op.b: the write runs on for up to 8 bytes in all (a block is followed by at least 8 bytes of its own padding, so this stays inside the block:
    // fill bytes, then - for an exact fit - the canary and the recorded slack themselves)
    for (uint64_t i = 1; i < op.b && i < 8; i++) q[i] = (op.c & 1) ? 0xFF : (uint8_t)(q[i] ^ (uint8_t)(1 + ((op.a >> 8) + i) % 255));
    void* p = b->p; size_t req = b->req; delete b;
    H.misuse_expected++;
    expect_errors(EB_EFAULT);
    T->misuse_in_progress = true;      // debug build: an internal assertion after the report (e.g. in _mi_padding_shrink on the cross-thread path) is outside the claim
    mi_free(p);
    T->misuse_in_progress = false;
    int n = take_error(EB_EFAULT);
    // (blocks with a page of their own segment -- requested size + 8 above 16 MiB -- are named as such: known finding F25)
    if (n < 1) sim_violation("overflow_undetected", "a foreign byte written just past the requested size (%zu) of %sblock %p was not reported when the block was freed", req, (req + 8 > (16u << 20)) ? "huge (more than 16 MiB: own segment) " : "", p);
    H.misuse_detected++; probe(PR_misuse_detected);
    if (is_dbg_build()) sim_finish_ok();      // debug-build assertions after a detected error are outside the property
    verify_all_live("after a detected overflow");
  }
  else if (op.code == OP_corrupt_free_link) {
    // writing into a freed block is only a free-list corruption while its page exists: another live block keeps the area alive
    if (!has_live_neighbour(b->p, b->usable, b->heap, b)) { H.ops_noop++; return; }
    block_verify(b, "before the corruption"); model_remove(b); H.slots[b->slot] = nullptr;
    void* p = b->p; const size_t req = b->req; const int mh = b->heap; delete b;
    mi_free(p);
    uint64_t forged = mix64(op.a, 0xF0F0) | 1;      // an odd value never decodes to an aligned in-page pointer by accident of alignment alone
    {
      // aimed: one time in three the forged word is one that decodes (with the page's own keys, which a program that can read its heap
      // may know) to a chosen address close to the page but outside it: a few 64 KiB slices before its area or behind it, in the same segment
      uintptr_t keys[2]; void* astart = nullptr; size_t asize = 0;
      if ((op.a % 3) == 0 && sim_peek_page(p, keys, &astart, &asize)) {
        const uintptr_t seg = (uintptr_t)p & ~(((uintptr_t)32 << 20) - 1), a0 = (uintptr_t)astart, a1 = a0 + asize;
        const uint64_t r = mix64(op.a, 0xA1ED);
        const uintptr_t k = 1 + (r % 7), off = ((r >> 8) % 4096) * 16;
        uintptr_t target = ((r >> 20) & 1) ? (a0 & ~(uintptr_t)0xFFFF) - k * 65536 + off : ((a1 + 0xFFFF) & ~(uintptr_t)0xFFFF) + (k - 1) * 65536 + off;
        if (target >= seg + 65536 && target + 16 < seg + ((uintptr_t)32 << 20) && !(target >= a0 && target < a1)) {
          const uintptr_t x = target ^ keys[1]; const unsigned sh = (unsigned)(keys[0] % 64);
          forged = (uint64_t)((sh == 0 ? x : ((x << sh) | (x >> (64 - sh)))) + keys[0]);
          probe(PR_misuse_detected, 0);
        }
      }
    }
    memcpy(p, &forged, sizeof forged);              // the program overwrites the free-list link of the freed block
    H.misuse_expected++;
    expect_errors(EB_EFAULT);
    for (auto& z : H.zombies) if (z.prog == T->prog) z.reissued = true;   // a corrupted list may drop blocks behind the forged link: a later second free of those cannot be recognised
    T->misuse_in_progress = true;
    // allocate in that class until the allocator must have walked past the forged link (kept live meanwhile, released afterwards)
    int detected = 0; const size_t limit = 2 * (65536 / (req + 8)) + 16;
    std::vector<Block*> tmp;
    for (size_t i = 0; i < limit && !detected; i++) {
      sched_call_begin();
      void* q = (mh == T->deflt) ? mi_malloc(req) : mi_heap_malloc(heap_ptr(mh), req);
      if (T->got_err_mask & EB_EFAULT) detected = 1;
      if (!q) continue;
      Block* nb = new Block(); nb->p = (uint8_t*)q; nb->req = req; nb->id = H.next_block_id++; nb->prog = T->prog; nb->subproc = T->subproc; nb->slot = -1; nb->heap = mh;
      sched_set_passthrough(true); nb->usable = mi_usable_size(q); sched_set_passthrough(false);
      if (!os_in_window(q) || !os_range_accessible(q, nb->usable)) sim_violation("foreign_memory", "after a corrupted free-list link the allocator returned %p which is not inside memory it obtained from the OS", q);
      if (!mi_is_in_heap_region(q)) sim_violation("foreign_memory", "after a corrupted free-list link the allocator returned %p which is outside all heap regions", q);
      model_insert(nb, "malloc after free-list corruption"); block_fill(nb); tmp.push_back(nb);
    }
    T->misuse_in_progress = false;
    take_error(EB_EFAULT);
    // with forced abandonment (target_segments_per_thread, mi_collect_reduce) the page of the freed block may have left the heap in the
    // meantime: the allocator then never reaches the forged link ("once the allocator reaches it"), there is nothing to report yet
    if (!detected && forced_abandon_possible_pub()) {
      sched_set_passthrough(true); const bool still_here = mi_heap_contains_block(heap_ptr(mh), p); sched_set_passthrough(false);
      if (!still_here) { H.ops_noop++; for (Block* nb : tmp) { model_remove(nb); sched_call_begin(); mi_free(nb->p); delete nb; } return; }
    }
    if (!detected) sim_violation("corruption_undetected", "the overwritten free-list link of freed block %p (forged value 0x%llx) was followed or ignored without a report during %zu allocations of its size class", p, (unsigned long long)forged, limit);
    H.misuse_detected++; probe(PR_misuse_detected);
    if (is_dbg_build()) sim_finish_ok();      // debug-build assertions after a detected error are outside the property
    for (Block* nb : tmp) { block_verify(nb, "after free-list corruption"); model_remove(nb); sched_call_begin(); mi_free(nb->p); delete nb; }
    if (is_dbg_build()) sim_finish_ok();
    verify_all_live("after a detected free-list corruption");
  }
}


// C06: malformed or oversized requests fail cleanly and have no other effect
size_t heap_used_sum(mi_heap_t* h, size_t* pages);
bool forced_abandon_possible_pub();   // a failing request runs a forced collect, which re-adopts force-abandoned pages
#include <errno.h>
#include <stdint.h>
#include <vector>
void oracle_bad_request(const Op& op) {
  const int kind = (int)op.a;
  const size_t n = (size_t)op.b;          // a small well-formed size used where one is needed
  Block* b = (op.slot >= 0 && op.slot < (int)H.slots.size()) ? H.slots[op.slot] : nullptr;
  const bool needs_block = (kind >= 15 && kind <= 22) || (kind >= 30 && kind <= 33) || (kind >= 36 && kind <= 38);
  if (needs_block && !b) { H.ops_noop++; return; }
  mi_heap_t* dh = heap_ptr(T->deflt);
  size_t pages0 = 0; const size_t used0 = dh ? heap_used_sum(dh, &pages0) : 0;
  const size_t mapped0 = os_mapped_bytes();
  expect_errors(EB_EOVERFLOW | EB_ENOMEM);
  void* p = b ? b->p : nullptr; void* r = (void*)(uintptr_t)1; int rc = 0; bool want_null = true; bool freed = false;
  const size_t HUGE1 = SIZE_MAX - 8, PD1 = (size_t)PTRDIFF_MAX + 1 + (n % 4096);
  void* outp = (void*)(uintptr_t)0x5A5A5A5A;
  errno = 0;
  switch (kind) {
    case 0: r = mi_malloc(HUGE1 - (n % 64)); break;
    case 1: r = mi_malloc(PD1); break;
    case 2: r = mi_calloc(SIZE_MAX / 2 + 1 + n, 2); break;
    case 3: r = mi_calloc((size_t)1 << 33, (size_t)1 << 33); break;
    case 4: r = mi_mallocn(SIZE_MAX / 3, 4 + (n % 5)); break;
    case 5: r = mi_zalloc(SIZE_MAX - 7 - (n % 8)); break;
    case 6: r = mi_malloc_aligned(n, 0); break;
    case 7: r = mi_malloc_aligned(n, 3); break;
    case 8: r = mi_zalloc_aligned(n, 24 + 8 * (n % 3 == 0 ? 0 : 3)); break;      // 24 or 48: not a power of two
    case 9: r = mi_malloc_aligned(SIZE_MAX - 100 - (n % 64), 64); break;
    case 10: rc = mi_posix_memalign(&outp, 0, n); r = nullptr; if (rc != EINVAL) sim_violation("bad_request", "mi_posix_memalign(alignment 0) returned %d instead of EINVAL", rc); break;
    case 11: rc = mi_posix_memalign(&outp, 4, n); r = nullptr; if (rc != EINVAL) sim_violation("bad_request", "mi_posix_memalign(alignment 4) returned %d instead of EINVAL", rc); break;
    case 12: rc = mi_posix_memalign(&outp, 24, n); r = nullptr; if (rc != EINVAL) sim_violation("bad_request", "mi_posix_memalign(alignment 24) returned %d instead of EINVAL", rc); break;
    case 13: rc = mi_posix_memalign(&outp, 64, SIZE_MAX - 100); r = nullptr; if (rc != ENOMEM) sim_violation("bad_request", "mi_posix_memalign(size SIZE_MAX-100) returned %d instead of ENOMEM", rc); break;
    case 14: r = mi_pvalloc(SIZE_MAX - 100 - (n % 4000)); break;
    case 15: r = mi_realloc(p, HUGE1); break;
    case 16: r = mi_reallocn(p, SIZE_MAX / 2, 4); break;
    case 17: r = mi_recalloc(p, (size_t)1 << 40, (size_t)1 << 40); break;
    case 18: r = mi_reallocarray(p, SIZE_MAX / 4, 8); if (r == nullptr && errno != ENOMEM) sim_violation("bad_request", "mi_reallocarray overflow: errno is %d, not ENOMEM", errno); break;
    case 19: { void* pp = p; rc = mi_reallocarr(&pp, SIZE_MAX / 4, 8); r = nullptr; if (rc == 0) sim_violation("bad_request", "mi_reallocarr accepted an overflowing request"); if (pp != p) sim_violation("bad_request", "mi_reallocarr failed but changed the pointer"); if (errno != ENOMEM) sim_violation("bad_request", "mi_reallocarr overflow: errno is %d", errno); break; }
    case 20: model_remove(b); H.slots[b->slot] = nullptr; block_verify(b, "before reallocf"); r = mi_reallocf(p, HUGE1); freed = true; break;   // released inside the call
    case 21: r = mi_realloc_aligned(p, SIZE_MAX - 100, 64); break;
    case 22: r = mi_rezalloc_aligned(p, n + 100, 24); break;
    case 23: expect_errors(EB_ENOMEM); r = mi_new_nothrow(HUGE1); break;
    case 24: { mi_heap_t* h = dh; r = h ? mi_heap_malloc(h, PD1) : nullptr; break; }
    case 25: r = mi_aligned_alloc(3, n); break;
    case 26: r = mi_memalign(0, n); break;
    case 27: r = mi_malloc_aligned_at(n, (size_t)64 << 20, 64); break;      // offset != 0 beyond half a segment: documented not to be supported
    case 28: { mi_heap_t* h = dh; r = h ? mi_heap_calloc(h, SIZE_MAX / 8, 16) : nullptr; break; }
    case 29: r = mi_zalloc_aligned_at(HUGE1, 16, 8); break;
    case 30: r = mi_realloc_aligned(p, n + 100, 0); break;                // alignment zero
    case 31: r = mi_realloc_aligned(p, n + 100, 3); break;                // not a power of two, below the word size
    case 32: r = mi_realloc_aligned_at(p, n + 100, 48, 8); break;
    case 33: r = mi_recalloc_aligned(p, n + 1, 2, 6); break;
    // the smallest overflowing count for a power-of-two element size: count * size is exactly 2^64 (wraps to 0), for every split of the 64 bits
    case 34: { const size_t sz = (size_t)1 << (1 + n % 63); r = mi_calloc(SIZE_MAX / sz + 1, sz); break; }
    case 35: { const size_t sz = (size_t)1 << (1 + n % 63); r = mi_mallocn(SIZE_MAX / sz + 1, sz); break; }
    case 36: { const size_t sz = (size_t)1 << (1 + n % 63); r = mi_reallocn(p, SIZE_MAX / sz + 1, sz); break; }
    case 37: { const size_t sz = (size_t)1 << (1 + n % 63); r = mi_recalloc(p, SIZE_MAX / sz + 1, sz); break; }
    case 38: { const size_t sz = (size_t)1 << (1 + n % 63); r = mi_reallocarray(p, SIZE_MAX / sz + 1, sz); if (r == nullptr && errno != ENOMEM) sim_violation("bad_request", "mi_reallocarray overflow (2^64): errno is %d, not ENOMEM", errno); break; }
    case 39: { const size_t sz = (size_t)1 << (1 + n % 63); r = mi_calloc_aligned(SIZE_MAX / sz + 1, sz, 64); break; }
    default: H.ops_noop++; return;
  }
  (void)want_null;
  if (r != nullptr && r == p && kind == 22) sim_violation("bad_request", "mi_rezalloc_aligned with an alignment that is not a power of two (24) returned the unchanged block %p instead of NULL", r);
  if (r != nullptr) sim_violation("bad_request", "malformed request kind %d returned a non-NULL pointer %p", kind, r);
  if (kind >= 10 && kind <= 13 && outp != (void*)(uintptr_t)0x5A5A5A5A) sim_violation("bad_request", "mi_posix_memalign failed (%d) but modified its out-parameter", rc);
  // no other effect on the block being re-allocated ...
  if (b) {
    if (freed) { delete b; }
    else block_verify(b, "after a failed re-allocation");
  }
  // ... nor on the heap
  size_t pages1 = 0; const size_t used1 = dh ? heap_used_sum(dh, &pages1) : 0;
  if (!forced_abandon_possible_pub() && used1 + (freed ? 1 : 0) != used0 && !(freed && used1 == used0)) sim_violation("bad_request", "malformed request kind %d changed the number of used blocks of the heap: %zu -> %zu", kind, used0, used1);
  if (os_mapped_bytes() > mapped0) sim_violation("bad_request", "malformed request kind %d left a new OS mapping behind (%zu -> %zu bytes mapped)", kind, mapped0, os_mapped_bytes());
  probe(PR_misuse_detected, 0);
}


// C18: memory unused for longer than the delay is purged by ordinary later activity (no forced collect)
static bool is_purge_kind(int k) { return k == OS_MADV_DONTNEED || k == OS_MADV_FREE || k == OS_MPROTECT_NONE; }
void oracle_purge_check(const Op& op) {
  const long delay = mi_option_get(mi_option_purge_delay);
  if (op.a == 2 || delay < 0) {
    // delay -1: nothing is ever purged
    if (delay < 0) for (auto& c : g_os.log) if (is_purge_kind(c.kind) && c.err == 0 && c.len >= 65536 && c.kind != OS_MPROTECT_NONE)
      sim_violation("purged_although_disabled", "purge_delay=-1 but the allocator issued %s on [0x%llx,+0x%llx)", os_kind_names[c.kind], (unsigned long long)c.addr, (unsigned long long)c.len);
    return;
  }
  const uintptr_t SEGMASK = ~(((uintptr_t)32 << 20) - 1);
  size_t checked = 0;
  for (auto& w : H.watch) {
    if (w.dropped) continue;
    if (os_is_hugetlb((uint64_t)w.p)) continue;      // pinned memory (explicit huge OS pages) is never purged
    // op.a bit 2: the plan freed every block, so every segment went back to its arena: whatever the segment had not purged itself is the arena's to purge
    const bool huge = w.usable > (16u << 20) || ((op.a & 4) && H.live.empty());
    // preconditions of the statement: unused for longer than the delay (op.c ms) and op.b rounds of ordinary activity since
    if (clock_now_ns() / 1000000ull - w.t_ms < op.c || H.activity_rounds - w.rounds_at_free < op.b) continue;
    if (!huge) {
      // page-level activity in the same segment after the free: a page free, or a fresh page that was not carved out of a span
      // with a pending purge (that postpones the purge by design) -- recognised by lying above everything watched in the segment
      uintptr_t top = 0; for (auto& x : H.watch) if ((x.p & SEGMASK) == (w.p & SEGMASK) && x.p + x.usable > top) top = x.p + x.usable;
      bool has = false;
      for (size_t i = 0; i < H.sentinel_bases.size(); i++) if (H.sentinel_bases[i] == (w.p & SEGMASK) && (H.sentinel_alloc_addr[i] == 0 || H.sentinel_alloc_addr[i] >= top)) has = true;
      if (!has && delay > 0 && !(op.a & 8)) continue;      // op.a bit 3: the watched pages lie in an abandoned segment, where the visits of non-forced collects are the activity
    }
    // every 64 KiB unit completely inside the freed block must be covered by a purge-type call issued after the free
    uintptr_t u0 = (w.p + 65535) & ~(uintptr_t)65535, u1 = (w.p + w.usable) & ~(uintptr_t)65535;
    for (uintptr_t u = u0; u + 65536 <= u1; u += 65536) {
      bool covered = false;
      for (size_t i = w.log_index; i < g_os.log.size() && !covered; i++) { const OsCall& c = g_os.log[i]; if (is_purge_kind(c.kind) && c.err == 0 && c.addr <= u && c.addr + c.len >= u + 65536) covered = true; }
      if (!covered) sim_violation(huge ? "arena_not_purged" : "span_not_purged", "purge_delay=%ld ms: block [0x%llx,+%zu) was freed at t=%llu ms and stayed unused, %llu ms and %d ordinary activity rounds later (no forced collect) the 64KiB unit at 0x%llx has still not been returned to the OS", delay,
                                  (unsigned long long)w.p, w.usable, (unsigned long long)w.t_ms, (unsigned long long)(clock_now_ns() / 1000000ull - w.t_ms), (int)op.b, (unsigned long long)u);
    }
    checked++;
  }
  if (checked) probe(PR_segment_purge_by_time, checked);
}

