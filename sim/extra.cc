// extra.cc -- oracles for C06 (malformed requests), C17 (misuse), C18 (purge by time); filled in step by step
#include "harness.h"
void oracle_misuse_op(const Op& op) { (void)op; H.ops_noop++; }
void oracle_bad_request(const Op& op) { (void)op; H.ops_noop++; }
void oracle_purge_check(const Op& op) { (void)op; H.ops_noop++; }
