// extra.cc -- oracles for C06 (malformed requests), C17 (misuse), C18 (purge by time); filled in step by step
#include "harness.h"
#include <string.h>
void oracle_misuse_op(const Op& op) { (void)op; H.ops_noop++; }
void oracle_bad_request(const Op& op) { (void)op; H.ops_noop++; }

// C18: memory unused for longer than the delay is purged by ordinary later activity (no forced collect)
static bool is_purge_kind(int k) { return k == OS_MADV_DONTNEED || k == OS_MADV_FREE || k == OS_MPROTECT_NONE; }
void oracle_purge_check(const Op& op) {
  const long delay = mi_option_get(mi_option_purge_delay);
  if (op.a == 2 || delay < 0) {
    // delay -1: nothing is ever purged
    if (delay < 0) for (auto& c : g_os.log) if (is_purge_kind(c.kind) && c.err == 0 && c.len >= 65536 && c.kind != OS_MPROTECT_NONE)
      sim_violation("purged_although_disabled", "purge_delay=-1 but the allocator issued %s on [0x%llx,+0x%llx)", os_kind_names[c.kind], (unsigned long long)c.addr, (unsigned long long)c.len);
    return;
  }
  const uintptr_t SEGMASK = ~(((uintptr_t)32 << 20) - 1);
  size_t checked = 0;
  for (auto& w : H.watch) {
    if (w.dropped) continue;
    const bool huge = w.usable > (16u << 20);
    // preconditions of the statement: unused for longer than the delay (op.c ms) and op.b rounds of ordinary activity since
    if (clock_now_ns() / 1000000ull - w.t_ms < op.c || H.activity_rounds - w.rounds_at_free < op.b) continue;
    if (!huge) { bool has = false; for (auto b : H.sentinel_bases) if (b == (w.p & SEGMASK)) has = true; if (!has && delay > 0) continue; }
    // every 64 KiB unit completely inside the freed block must be covered by a purge-type call issued after the free
    uintptr_t u0 = (w.p + 65535) & ~(uintptr_t)65535, u1 = (w.p + w.usable) & ~(uintptr_t)65535;
    for (uintptr_t u = u0; u + 65536 <= u1; u += 65536) {
      bool covered = false;
      for (size_t i = w.log_index; i < g_os.log.size() && !covered; i++) { const OsCall& c = g_os.log[i]; if (is_purge_kind(c.kind) && c.err == 0 && c.addr <= u && c.addr + c.len >= u + 65536) covered = true; }
      if (!covered) sim_violation(huge ? "arena_not_purged" : "span_not_purged", "purge_delay=%ld ms: block [0x%llx,+%zu) was freed at t=%llu ms and stayed unused, %llu ms and %d ordinary activity rounds later (no forced collect) the 64KiB unit at 0x%llx has still not been returned to the OS", delay,
                                  (unsigned long long)w.p, w.usable, (unsigned long long)w.t_ms, (unsigned long long)(clock_now_ns() / 1000000ull - w.t_ms), (int)op.b, (unsigned long long)u);
    }
    checked++;
  }
  if (checked) probe(PR_segment_purge_by_time, checked);
}

