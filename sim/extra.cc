// extra.cc -- oracles for C06 (malformed requests), C17 (misuse), C18 (purge by time); filled in step by step
#include "harness.h"
#include <string.h>
void oracle_misuse_op(const Op& op) { (void)op; H.ops_noop++; }

// C06: malformed or oversized requests fail cleanly and have no other effect
size_t heap_used_sum(mi_heap_t* h, size_t* pages);
#include <errno.h>
#include <stdint.h>
void oracle_bad_request(const Op& op) {
  const int kind = (int)op.a;
  const size_t n = (size_t)op.b;          // a small well-formed size used where one is needed
  Block* b = (op.slot >= 0 && op.slot < (int)H.slots.size()) ? H.slots[op.slot] : nullptr;
  const bool needs_block = (kind >= 15 && kind <= 22);
  if (needs_block && !b) { H.ops_noop++; return; }
  mi_heap_t* dh = heap_ptr(T->deflt);
  size_t pages0 = 0; const size_t used0 = dh ? heap_used_sum(dh, &pages0) : 0;
  const size_t mapped0 = os_mapped_bytes();
  expect_errors(EB_EOVERFLOW | EB_ENOMEM);
  void* p = b ? b->p : nullptr; void* r = (void*)(uintptr_t)1; int rc = 0; bool want_null = true; bool freed = false;
  const size_t HUGE1 = SIZE_MAX - 8, PD1 = (size_t)PTRDIFF_MAX + 1 + (n % 4096);
  void* outp = (void*)(uintptr_t)0x5A5A5A5A;
  errno = 0;
  switch (kind) {
    case 0: r = mi_malloc(HUGE1 - (n % 64)); break;
    case 1: r = mi_malloc(PD1); break;
    case 2: r = mi_calloc(SIZE_MAX / 2 + 1 + n, 2); break;
    case 3: r = mi_calloc((size_t)1 << 33, (size_t)1 << 33); break;
    case 4: r = mi_mallocn(SIZE_MAX / 3, 4 + (n % 5)); break;
    case 5: r = mi_zalloc(SIZE_MAX - 7 - (n % 8)); break;
    case 6: r = mi_malloc_aligned(n, 0); break;
    case 7: r = mi_malloc_aligned(n, 3); break;
    case 8: r = mi_zalloc_aligned(n, 24 + 8 * (n % 3 == 0 ? 0 : 3)); break;      // 24 or 48: not a power of two
    case 9: r = mi_malloc_aligned(SIZE_MAX - 100 - (n % 64), 64); break;
    case 10: rc = mi_posix_memalign(&outp, 0, n); r = nullptr; if (rc != EINVAL) sim_violation("bad_request", "mi_posix_memalign(alignment 0) returned %d instead of EINVAL", rc); break;
    case 11: rc = mi_posix_memalign(&outp, 4, n); r = nullptr; if (rc != EINVAL) sim_violation("bad_request", "mi_posix_memalign(alignment 4) returned %d instead of EINVAL", rc); break;
    case 12: rc = mi_posix_memalign(&outp, 24, n); r = nullptr; if (rc != EINVAL) sim_violation("bad_request", "mi_posix_memalign(alignment 24) returned %d instead of EINVAL", rc); break;
    case 13: rc = mi_posix_memalign(&outp, 64, SIZE_MAX - 100); r = nullptr; if (rc != ENOMEM) sim_violation("bad_request", "mi_posix_memalign(size SIZE_MAX-100) returned %d instead of ENOMEM", rc); break;
    case 14: r = mi_pvalloc(SIZE_MAX - 100 - (n % 4000)); break;
    case 15: r = mi_realloc(p, HUGE1); break;
    case 16: r = mi_reallocn(p, SIZE_MAX / 2, 4); break;
    case 17: r = mi_recalloc(p, (size_t)1 << 40, (size_t)1 << 40); break;
    case 18: r = mi_reallocarray(p, SIZE_MAX / 4, 8); if (r == nullptr && errno != ENOMEM) sim_violation("bad_request", "mi_reallocarray overflow: errno is %d, not ENOMEM", errno); break;
    case 19: { void* pp = p; rc = mi_reallocarr(&pp, SIZE_MAX / 4, 8); r = nullptr; if (rc == 0) sim_violation("bad_request", "mi_reallocarr accepted an overflowing request"); if (pp != p) sim_violation("bad_request", "mi_reallocarr failed but changed the pointer"); if (errno != ENOMEM) sim_violation("bad_request", "mi_reallocarr overflow: errno is %d", errno); break; }
    case 20: model_remove(b); H.slots[b->slot] = nullptr; block_verify(b, "before reallocf"); r = mi_reallocf(p, HUGE1); freed = true; break;   // released inside the call
    case 21: r = mi_realloc_aligned(p, SIZE_MAX - 100, 64); break;
    case 22: r = mi_rezalloc_aligned(p, n + 100, 24); break;
    case 23: expect_errors(EB_ENOMEM); r = mi_new_nothrow(HUGE1); break;
    case 24: { mi_heap_t* h = dh; r = h ? mi_heap_malloc(h, PD1) : nullptr; break; }
    case 25: r = mi_aligned_alloc(3, n); break;
    case 26: r = mi_memalign(0, n); break;
    case 27: r = mi_malloc_aligned_at(n, (size_t)64 << 20, 64); break;      // offset != 0 beyond half a segment: documented not to be supported
    case 28: { mi_heap_t* h = dh; r = h ? mi_heap_calloc(h, SIZE_MAX / 8, 16) : nullptr; break; }
    case 29: r = mi_zalloc_aligned_at(HUGE1, 16, 8); break;
    default: H.ops_noop++; return;
  }
  (void)want_null;
  if (r != nullptr && r == p && kind == 22) sim_violation("bad_request", "mi_rezalloc_aligned with an alignment that is not a power of two (24) returned the unchanged block %p instead of NULL", r);
  if (r != nullptr) sim_violation("bad_request", "malformed request kind %d returned a non-NULL pointer %p", kind, r);
  if (kind >= 10 && kind <= 13 && outp != (void*)(uintptr_t)0x5A5A5A5A) sim_violation("bad_request", "mi_posix_memalign failed (%d) but modified its out-parameter", rc);
  // no other effect on the block being re-allocated ...
  if (b) {
    if (freed) { delete b; }
    else block_verify(b, "after a failed re-allocation");
  }
  // ... nor on the heap
  size_t pages1 = 0; const size_t used1 = dh ? heap_used_sum(dh, &pages1) : 0;
  if (used1 + (freed ? 1 : 0) != used0 && !(freed && used1 == used0)) sim_violation("bad_request", "malformed request kind %d changed the number of used blocks of the heap: %zu -> %zu", kind, used0, used1);
  if (os_mapped_bytes() > mapped0) sim_violation("bad_request", "malformed request kind %d left a new OS mapping behind (%zu -> %zu bytes mapped)", kind, mapped0, os_mapped_bytes());
  probe(PR_misuse_detected, 0);
}


// C18: memory unused for longer than the delay is purged by ordinary later activity (no forced collect)
static bool is_purge_kind(int k) { return k == OS_MADV_DONTNEED || k == OS_MADV_FREE || k == OS_MPROTECT_NONE; }
void oracle_purge_check(const Op& op) {
  const long delay = mi_option_get(mi_option_purge_delay);
  if (op.a == 2 || delay < 0) {
    // delay -1: nothing is ever purged
    if (delay < 0) for (auto& c : g_os.log) if (is_purge_kind(c.kind) && c.err == 0 && c.len >= 65536 && c.kind != OS_MPROTECT_NONE)
      sim_violation("purged_although_disabled", "purge_delay=-1 but the allocator issued %s on [0x%llx,+0x%llx)", os_kind_names[c.kind], (unsigned long long)c.addr, (unsigned long long)c.len);
    return;
  }
  const uintptr_t SEGMASK = ~(((uintptr_t)32 << 20) - 1);
  size_t checked = 0;
  for (auto& w : H.watch) {
    if (w.dropped) continue;
    const bool huge = w.usable > (16u << 20);
    // preconditions of the statement: unused for longer than the delay (op.c ms) and op.b rounds of ordinary activity since
    if (clock_now_ns() / 1000000ull - w.t_ms < op.c || H.activity_rounds - w.rounds_at_free < op.b) continue;
    if (!huge) { bool has = false; for (auto b : H.sentinel_bases) if (b == (w.p & SEGMASK)) has = true; if (!has && delay > 0) continue; }
    // every 64 KiB unit completely inside the freed block must be covered by a purge-type call issued after the free
    uintptr_t u0 = (w.p + 65535) & ~(uintptr_t)65535, u1 = (w.p + w.usable) & ~(uintptr_t)65535;
    for (uintptr_t u = u0; u + 65536 <= u1; u += 65536) {
      bool covered = false;
      for (size_t i = w.log_index; i < g_os.log.size() && !covered; i++) { const OsCall& c = g_os.log[i]; if (is_purge_kind(c.kind) && c.err == 0 && c.addr <= u && c.addr + c.len >= u + 65536) covered = true; }
      if (!covered) sim_violation(huge ? "arena_not_purged" : "span_not_purged", "purge_delay=%ld ms: block [0x%llx,+%zu) was freed at t=%llu ms and stayed unused, %llu ms and %d ordinary activity rounds later (no forced collect) the 64KiB unit at 0x%llx has still not been returned to the OS", delay,
                                  (unsigned long long)w.p, w.usable, (unsigned long long)w.t_ms, (unsigned long long)(clock_now_ns() / 1000000ull - w.t_ms), (int)op.b, (unsigned long long)u);
    }
    checked++;
  }
  if (checked) probe(PR_segment_purge_by_time, checked);
}

