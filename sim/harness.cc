// harness.cc -- plan interpreter, shadow heap and the common oracles O1..O5 (DESIGN.md section 5).
#include "harness.h"
#include <new>
#include <algorithm>
#include <errno.h>
#include <stdio.h>
#include <stdlib.h>
#include <string.h>

extern "C" void _mi_process_load(void);

Harness H;
__thread ThreadCtx* T = nullptr;
static std::vector<uint8_t> g_busy;
static std::vector<int> g_prog_vt;      // program -> vthread index (-1 not started)

#ifndef SIM_BUILD
#define SIM_BUILD "REL"
#endif
bool is_sec_build() { return strcmp(SIM_BUILD, "SEC") == 0; }
bool is_dbg_build() { return strcmp(SIM_BUILD, "DBG") == 0; }
bool is_padded_build() { return is_sec_build() || is_dbg_build(); }

static const size_t FULL_FILL_MAX = 1u << 20;   // blocks up to 1 MiB are written and verified completely
static const size_t PG = 4096;

// ---------------------------------------------------------------------------------
// pattern: byte i of block `id` is byte (i&7) of W(id, i>>3); every byte is non-zero
// ---------------------------------------------------------------------------------
static inline uint64_t pat_word(uint64_t id, uint64_t w) {
  uint64_t x = (id * 0x9E3779B97F4A7C15ull) ^ (w * 0xD6E8FEB86659FD93ull) ^ (w >> 7);
  x ^= x >> 29;
  return x | 0x0101010101010101ull;
}
static inline uint8_t pat_byte(uint64_t id, size_t i) { return (uint8_t)(pat_word(id, i >> 3) >> ((i & 7) * 8)); }

static void fill_range(uint8_t* p, uint64_t id, size_t from, size_t to) {
  size_t i = from;
  while (i < to && (i & 7)) { p[i] = pat_byte(id, i); i++; }
  while (i + 8 <= to) { uint64_t w = pat_word(id, i >> 3); memcpy(p + i, &w, 8); i += 8; }
  while (i < to) { p[i] = pat_byte(id, i); i++; }
}
// returns offset of the first mismatch or (size_t)-1
static size_t check_range(const uint8_t* p, uint64_t id, size_t from, size_t to) {
  size_t i = from;
  while (i < to && (i & 7)) { if (p[i] != pat_byte(id, i)) return i; i++; }
  while (i + 8 <= to) { uint64_t w = pat_word(id, i >> 3), v; memcpy(&v, p + i, 8); if (v != w) { for (size_t k = 0; k < 8; k++) if (p[i + k] != pat_byte(id, i + k)) return i + k; } i += 8; }
  while (i < to) { if (p[i] != pat_byte(id, i)) return i; i++; }
  return (size_t)-1;
}
static size_t first_nonzero(const uint8_t* p, size_t from, size_t to) {
  size_t i = from;
  while (i < to && ((uintptr_t)(p + i) & 7)) { if (p[i]) return i; i++; }
  while (i + 8 <= to) { uint64_t v; memcpy(&v, p + i, 8); if (v) { for (size_t k = 0; k < 8; k++) if (p[i + k]) return i + k; } i += 8; }
  while (i < to) { if (p[i]) return i; i++; }
  return (size_t)-1;
}

// the set of byte ranges of a block the harness touches: everything for blocks <= 1 MiB, else first/last page + a sample
template <class F> static void for_touched_ranges(const Block* b, size_t limit, F f) {
  if (limit <= FULL_FILL_MAX || b->full_fill) { f((size_t)0, limit); return; }
  f((size_t)0, PG);
  Rng r; r.seed(b->id * 77 + 5);
  size_t pages = limit / PG;
  for (int k = 0; k < 6; k++) { size_t pg = 1 + (size_t)r.below(pages - 1); size_t s = pg * PG, e = s + PG; if (e > limit) e = limit; f(s, e); }
  // and what lies at every 32 MiB boundary inside the block: later segments placed in this memory keep their header and slice table there
  const uintptr_t SEGSZ = (uintptr_t)32 << 20;
  for (uintptr_t a = ((uintptr_t)b->p + SEGSZ) & ~(SEGSZ - 1); a + PG < (uintptr_t)b->p + limit - PG; a += SEGSZ) {
    size_t s = (size_t)(a - (uintptr_t)b->p), e = s + (128u << 10); if (e > limit - PG) e = limit - PG; if (e > s) f(s, e);
  }
  f(limit - (limit % PG ? limit % PG : PG), limit);
}

static inline size_t pattern_limit(const Block* b) { return b->zchain ? b->req : b->usable; }

void block_fill(Block* b) {
  size_t lim = pattern_limit(b);
  for_touched_ranges(b, lim, [&](size_t s, size_t e) { fill_range(b->p, b->id, s, e); });
  // the slack [req,usable) of a zero-initialised block is never touched by the program: growing it in place must find zeros
  b->filled = true;
}

void block_verify(Block* b, const char* when) {
  if (!b->filled) return;
  size_t lim = pattern_limit(b);
  for_touched_ranges(b, lim, [&](size_t s, size_t e) {
    size_t bad = check_range(b->p, b->id, s, e);
    H.bytes_verified += e - s;
    if (bad != (size_t)-1) {
      uint8_t got = b->p[bad], exp = pat_byte(b->id, bad);
      size_t run = 0; while (bad + run < e && run < 64 && b->p[bad + run] != pat_byte(b->id, bad + run)) run++;
      sim_violation("content", "block #%llu (slot %d, %p, requested %zu, usable %zu, allocated by thread %d) changed at offset %zu (%s): expected 0x%02x got 0x%02x (%zu+ bytes differ%s)",
                    (unsigned long long)b->id, b->slot, (void*)b->p, b->req, b->usable, b->prog, bad, when, exp, got, run,
                    got == 0 ? "; reads as zero" : got == 0xDF ? "; debug freed-fill 0xDF" : got == 0xD0 ? "; debug uninit-fill 0xD0" : "");
    }
  });
}

void model_insert(Block* b, const char* what) {
  uintptr_t s = (uintptr_t)b->p, e = s + (b->usable ? b->usable : 1);
  auto it = H.live.lower_bound(s);
  if (it != H.live.end()) {
    Block* n = it->second;
    if ((uintptr_t)n->p < e) sim_violation("overlap", "%s returned %p (usable %zu) which overlaps live block #%llu at %p (usable %zu, slot %d, allocated by thread %d)", what, (void*)b->p, b->usable, (unsigned long long)n->id, (void*)n->p, n->usable, n->slot, n->prog);
  }
  if (it != H.live.begin()) {
    --it; Block* n = it->second;
    if ((uintptr_t)n->p + (n->usable ? n->usable : 1) > s) sim_violation("overlap", "%s returned %p (usable %zu) which lies inside live block #%llu at %p (usable %zu, slot %d, allocated by thread %d)", what, (void*)b->p, b->usable, (unsigned long long)n->id, (void*)n->p, n->usable, n->slot, n->prog);
  }
  H.live[s] = b;
  for (auto& w : H.watch) if (!w.dropped && w.p < e && w.p + w.usable > s) w.dropped = true;   // handed out again
  for (auto& z : H.zombies) if (!z.reissued && (uintptr_t)z.p < e && (uintptr_t)z.p + z.usable > s) z.reissued = true;
}
void model_remove(Block* b) { H.live.erase((uintptr_t)b->p); }

void collect_all_heaps(bool force) {
  for (size_t i = 0; i < H.heaps.size(); i++) { MHeap& m = H.heaps[i]; if (m.alive && m.prog == T->prog && m.kind != HK_BACKING && m.h) { sched_call_begin(); mi_heap_collect(m.h, force); } }
  sched_call_begin(); mi_collect(force);
}
// the usable size of a live block is a constant of the block (whatever happens to its page in the meantime: queue moves, abandonment,
// adoption by another thread): the pointer keeps being treated as what it is, also when it points into the interior of an over-allocated block
void usable_verify(Block* b, const char* when) {
  sched_set_passthrough(true); const size_t us = mi_usable_size(b->p); sched_set_passthrough(false);
  if (us != b->usable) sim_violation("usable_size", "mi_usable_size(%p) of live block #%llu (requested %zu, alignment %zu, allocated by thread %d) is %zu %s but was %zu when the block was allocated", (void*)b->p, (unsigned long long)b->id, b->req, b->align, b->prog, us, when, b->usable);
}
void verify_all_live(const char* when) { size_t n = 0; for (auto& kv : H.live) { block_verify(kv.second, when); if (n++ < 4000) usable_verify(kv.second, when); } }

// ---------------------------------------------------------------------------------
// error / output callbacks
// ---------------------------------------------------------------------------------
static int err_bit(int err) {
  switch (err) { case ENOMEM: return EB_ENOMEM; case EOVERFLOW: return EB_EOVERFLOW; case EAGAIN: return EB_EAGAIN; case EFAULT: return EB_EFAULT; case EINVAL: return EB_EINVAL; default: return EB_OTHER; }
}
static char g_last_out[400];
static void on_error(int err, void*) {
  if (T) { T->got_err_mask |= err_bit(err); T->got_err_count++; }
  g_api_hash.add(0xE000 + (uint64_t)err);
}
static void on_output(const char* msg, void*) {
  if (!msg) return;
  if (strncmp(msg, "mimalloc: ", 10) == 0 && strlen(msg) <= 32) return;   // prefix only
  snprintf(g_last_out, sizeof g_last_out, "%s", msg);
  sim_set_last_message(g_last_out);
  if (strstr(msg, "fall back to over-allocation")) probe(PR_aligned_overalloc);
  if (g_cfg.trace) sim_note("mi: %.200s", msg);
}
void expect_errors(int mask) { if (T) T->expect_err_mask |= mask; }

// ---------------------------------------------------------------------------------
// heaps of the model
// ---------------------------------------------------------------------------------
static int new_model_heap(int prog, int kind, mi_heap_t* h) { MHeap m; m.prog = prog; m.kind = kind; m.h = h; H.heaps.push_back(m); return (int)H.heaps.size() - 1; }

static void thread_ctx_fresh_heaps(ThreadCtx* t) {
  for (int i = 0; i < 8; i++) t->hslots[i] = -1;
  t->backing = new_model_heap(t->prog, HK_BACKING, nullptr);
  t->deflt = t->backing;
  t->initialized = false; t->alloc_ok = false;
}

void resolve_backing() {
  MHeap& m = H.heaps[T->backing];
  if (m.h == nullptr && !T->alloc_ok && T->prog != 0 && (os_faults_fired() > 0 || os_any_fault_active())) return;   // the thread heap may not exist
  if (m.h == nullptr) { sched_set_passthrough(true); m.h = mi_heap_get_backing(); sched_set_passthrough(false); }
}
mi_heap_t* heap_ptr(int mh) {
  if (mh < 0) return nullptr;
  if (H.heaps[mh].kind == HK_BACKING && H.heaps[mh].h == nullptr && H.heaps[mh].prog == T->prog) resolve_backing();
  return H.heaps[mh].h;
}
int heap_for_alloc(const Op& op) {
  if (op.hslot >= 0 && op.hslot < 8 && T->hslots[op.hslot] >= 0) return T->hslots[op.hslot];
  return -2;   // default-heap API
}

// all blocks of the model heaps of `prog` lose their owner (thread exit / mi_thread_done)
static void orphan_thread_blocks(int prog) {
  for (auto& kv : H.live) { Block* b = kv.second; if (b->heap >= 0 && H.heaps[b->heap].prog == prog) { b->orphan_kind = (H.heaps[b->heap].tag != 0 ? 2 : 1); if (b->orphan_kind == 2) H.tag_orphans_ever++; b->heap = -1; } }
  for (Block* b : H.limbo) if (b->heap >= 0 && H.heaps[b->heap].prog == prog) { b->orphan_kind = (H.heaps[b->heap].tag != 0 ? 2 : 1); if (b->orphan_kind == 2) H.tag_orphans_ever++; b->heap = -1; }
  for (auto& m : H.heaps) if (m.prog == prog) m.alive = false;
}

// ---------------------------------------------------------------------------------
// allocation
// ---------------------------------------------------------------------------------
static bool is_pow2(uint64_t x) { return x && !(x & (x - 1)); }

struct AllocResult { void* p; size_t req; size_t align; size_t offset; bool zero; bool called; int rc; };

static AllocResult call_alloc(const Op& op, mi_heap_t* h) {
  AllocResult r{nullptr, 0, 0, 0, false, true, 0};
  const uint64_t a = op.a, b = op.b, c = op.c, d = op.d;
  switch (op.code) {
    case OP_malloc: r.req = a; r.p = h ? mi_heap_malloc(h, a) : mi_malloc(a); break;
    case OP_zalloc: r.req = a; r.zero = true; r.p = h ? mi_heap_zalloc(h, a) : mi_zalloc(a); break;
    case OP_calloc: r.req = a * b; r.zero = true; r.p = h ? mi_heap_calloc(h, a, b) : mi_calloc(a, b); break;
    case OP_mallocn: r.req = a * b; r.p = h ? mi_heap_mallocn(h, a, b) : mi_mallocn(a, b); break;
    case OP_malloc_small: r.req = a; r.p = h ? mi_heap_malloc_small(h, a) : mi_malloc_small(a); break;
    case OP_zalloc_small: r.req = a; r.zero = true; r.p = mi_zalloc_small(a); break;
    case OP_malloc_aligned: r.req = a; r.align = b; r.p = h ? mi_heap_malloc_aligned(h, a, b) : mi_malloc_aligned(a, b); break;
    case OP_malloc_aligned_at: r.req = a; r.align = b; r.offset = c; r.p = h ? mi_heap_malloc_aligned_at(h, a, b, c) : mi_malloc_aligned_at(a, b, c); break;
    case OP_zalloc_aligned: r.req = a; r.align = b; r.zero = true; r.p = h ? mi_heap_zalloc_aligned(h, a, b) : mi_zalloc_aligned(a, b); break;
    case OP_zalloc_aligned_at: r.req = a; r.align = b; r.offset = c; r.zero = true; r.p = h ? mi_heap_zalloc_aligned_at(h, a, b, c) : mi_zalloc_aligned_at(a, b, c); break;
    case OP_calloc_aligned: r.req = a * b; r.align = c; r.zero = true; r.p = h ? mi_heap_calloc_aligned(h, a, b, c) : mi_calloc_aligned(a, b, c); break;
    case OP_calloc_aligned_at: r.req = a * b; r.align = c; r.offset = d; r.zero = true; r.p = h ? mi_heap_calloc_aligned_at(h, a, b, c, d) : mi_calloc_aligned_at(a, b, c, d); break;
    case OP_posix_memalign: { r.req = a; r.align = b; void* q = (void*)(uintptr_t)0x5A5A5A5A; r.rc = mi_posix_memalign(&q, b, a); r.p = (r.rc == 0 ? q : nullptr);
      if (r.rc != 0 && q != (void*)(uintptr_t)0x5A5A5A5A) sim_violation("api_contract", "mi_posix_memalign returned %d but modified its out-parameter", r.rc);
      if (r.rc != 0 && r.rc != EINVAL && r.rc != ENOMEM) sim_violation("api_contract", "mi_posix_memalign returned %d", r.rc);
      break; }
    case OP_memalign: r.req = a; r.align = b; r.p = mi_memalign(b, a); break;
    case OP_aligned_alloc: r.req = a; r.align = b; r.p = mi_aligned_alloc(b, a); break;
    case OP_valloc: r.req = a; r.align = PG; r.p = mi_valloc(a); break;
    case OP_pvalloc: r.req = (a + PG - 1) & ~(PG - 1); r.align = PG; r.p = mi_pvalloc(a); break;
    case OP_strdup: case OP_strndup: {
      size_t len = (size_t)a; if (len > 4096) len = 4096;
      char* tmp = (char*)alloca(len + 1); for (size_t i = 0; i < len; i++) tmp[i] = (char)('a' + (i % 23)); tmp[len] = 0;
      size_t n = (op.code == OP_strndup ? (size_t)b : len); size_t outlen = (op.code == OP_strndup && n < len) ? n : len;
      r.req = outlen + 1;
      char* s = (op.code == OP_strdup) ? (h ? mi_heap_strdup(h, tmp) : mi_strdup(tmp)) : (h ? mi_heap_strndup(h, tmp, n) : mi_strndup(tmp, n));
      if (s) { if (memcmp(s, tmp, outlen) != 0 || s[outlen] != 0) sim_violation("api_contract", "strdup/strndup result differs from its source"); }
      r.p = s; break; }
    // the throwing operator-new entry points (they abort on failure in a C build: only generated where nothing can fail)
    case OP_new_plain: r.req = a; r.p = mi_new(a); break;
    case OP_new_n: r.req = a * b; r.p = mi_new_n(a, b); break;
    case OP_new_aligned: r.req = a; r.align = b; r.p = mi_new_aligned(a, b); break;
    case OP_heap_alloc_new: r.req = a; r.p = h ? mi_heap_alloc_new(h, a) : mi_new(a); break;
    case OP_heap_alloc_new_n: r.req = a * b; r.p = h ? mi_heap_alloc_new_n(h, a, b) : mi_new_n(a, b); break;
    case OP_new_nothrow: r.req = a; r.p = mi_new_nothrow(a); break;
    case OP_new_aligned_nothrow: r.req = a; r.align = b; r.p = mi_new_aligned_nothrow(a, b); break;
    default: r.called = false; break;
  }
  return r;
}

static bool arena_contains(const MArena& ar, const void* p, size_t n) { return (uint8_t*)p >= ar.start && (uint8_t*)p + n <= ar.start + ar.size; }

// common post-conditions of a successful allocation (O1); `b` is complete except for filled/inserted
static void check_new_block(Block* b, const char* what, bool natural_align) {
  uint8_t* p = b->p;
  if (b->usable < b->req) sim_violation("usable_size", "%s(%zu): mi_usable_size is %zu, less than requested", what, b->req, b->usable);
  if (b->align) {
    if (((uintptr_t)p + b->offset) % b->align != 0) sim_violation("alignment", "%s(size %zu, alignment %zu, offset %zu) returned %p: (p+offset) is not a multiple of the alignment", what, b->req, b->align, b->offset, (void*)p);
  }
  if (natural_align && b->offset == 0) {
    size_t na = (b->req >= 16 ? 16 : 8);
    if ((uintptr_t)p % na != 0) sim_violation("alignment", "%s(%zu) returned %p which is not %zu-byte aligned", what, b->req, (void*)p, na);
  }
  if (!os_in_window(p)) sim_violation("foreign_memory", "%s returned %p which is outside all memory obtained from the (simulated) OS", what, (void*)p);
  size_t lim = b->usable;
  for_touched_ranges(b, lim, [&](size_t s, size_t e) {
    if (!os_range_accessible(p + s, e - s)) { char d[256]; os_describe_addr(p + s, d, sizeof d); sim_violation("inaccessible", "%s(%zu) returned %p (usable %zu) but bytes [%zu,%zu) are not accessible: %s", what, b->req, (void*)p, b->usable, s, e, d); }
  });
  // arena obligations
  if (b->heap >= 0 && H.heaps[b->heap].arena_slot >= 0) {
    const MArena& ar = H.arenas[H.heaps[b->heap].arena_slot];
    if (!arena_contains(ar, p, b->usable)) sim_violation("arena_escape", "%s from a heap bound to arena %d returned %p (usable %zu) outside the arena [%p,+%zu)", what, ar.id, (void*)p, b->usable, (void*)ar.start, ar.size);
  } else if (b->heap >= 0) {    // (an orphan re-allocated in place keeps its memory: nothing new was handed out)
    for (auto& ar : H.arenas) if (ar.id != 0 && ar.exclusive && (uint8_t*)p < ar.start + ar.size && p + b->usable > ar.start)
      sim_violation("arena_private", "%s from a heap that is not bound to exclusive arena %d returned %p inside it", what, ar.id, (void*)p);
  }
  // donated regions: never outside the bounds given
  for (auto& ar : H.arenas) if (ar.donated && ar.region) {
    bool in_region = (uint8_t*)p >= ar.region && p + b->usable <= ar.region + ar.region_size;
    bool touches = (uint8_t*)p < ar.region + ar.region_size + (32u << 20) && p + b->usable > ar.region - (32u << 20);
    if (touches && !in_region && !((uint8_t*)p >= ar.region + ar.region_size || p + b->usable <= ar.region)) sim_violation("arena_bounds", "%s returned %p (usable %zu) straddling the bounds of donated region [%p,+%zu)", what, (void*)p, b->usable, (void*)ar.region, ar.region_size);
  }
}

static bool null_allowed(const Op& op) {
  if (op.flags & OPF_MAY_FAIL) return true;
  if ((op.flags & OPF_MUST_SUCCEED) && !os_any_fault_active() && op.faults.empty()) return false;
  if (!H.plan->expect_no_null) return true;
  if (os_faults_fired() > 0 || os_any_fault_active()) return true;
  return false;
}

static void zero_check(Block* b, const uint8_t* p, size_t from, size_t to, const char* what) {
  if (to <= from) return;
  probe(PR_zero_checked);
  Block tmp = *b; tmp.p = (uint8_t*)p;
  auto chk = [&](size_t s, size_t e) {
    if (e <= from || s >= to) return; if (s < from) s = from; if (e > to) e = to;
    size_t nz = first_nonzero(p, s, e);
    if (nz != (size_t)-1) sim_violation("not_zero", "%s: byte %zu of %p (requested %zu) reads 0x%02x instead of zero (range that must be zero: [%zu,%zu))", what, nz, (const void*)p, b->req, p[nz], from, to);
  };
  if (to - from <= FULL_FILL_MAX * 8 || b->full_fill) chk(from, to);
  else for_touched_ranges(&tmp, to, chk);
}

bool g_busy_pub(int slot) { return slot >= 0 && slot < (int)H.slots.size() && g_busy[slot] != 0; }

// a new_handler as C++ programs install it: it releases memory (here: the simulated OS stops refusing) so that the retry inside mi_new* succeeds;
// after a few calls within one operation it uninstalls itself (an unsatisfiable request must not loop)
// (mimalloc's C build finds the handler through the symbol of std::get_new_handler(), for which it carries a weak fallback that returns
// NULL; the harness provides the strong definition, as a statically linked C++ runtime does)
size_t heap_used_sum(mi_heap_t* h, size_t* pages);
static int g_nh_calls = 0;
static void (*g_new_handler)() = nullptr;
extern "C" void (*sim_std_get_new_handler(void))(void) __asm__("_ZSt15get_new_handlerv");
extern "C" void (*sim_std_get_new_handler(void))(void) { return g_new_handler; }
static void healing_new_handler() { os_heal(); if (++g_nh_calls > 3) g_new_handler = nullptr; }
struct NewHandlerScope { bool on; NewHandlerScope(const Op& op) : on((op.flags & OPF_NEW_HANDLER) != 0) { if (on) { g_nh_calls = 0; g_new_handler = &healing_new_handler; } } ~NewHandlerScope() { if (on) g_new_handler = nullptr; } };

static void do_alloc(const Op& op) {
  NewHandlerScope nhs(op);
  int s = op.slot;
  if ((op.flags & OPF_WAIT) && s >= 0 && s < (int)H.slots.size()) while (H.slots[s] != nullptr || g_busy[s]) { if (!sched_wait(0x51070000ull + (uint64_t)s)) break; }
  if (s < 0 || s >= (int)H.slots.size() || H.slots[s] != nullptr || g_busy[s]) { H.ops_noop++; return; }
  int mh = heap_for_alloc(op);
  switch (op.code) {   // entry points without a per-heap variant always use the default heap
    case OP_zalloc_small: case OP_posix_memalign: case OP_memalign: case OP_aligned_alloc: case OP_valloc: case OP_pvalloc:
    case OP_new_nothrow: case OP_new_aligned_nothrow: case OP_new_plain: case OP_new_n: case OP_new_aligned: mh = -2; break;
    default: break;
  }
  mi_heap_t* h = (mh >= 0 ? heap_ptr(mh) : nullptr);
  g_busy[s] = 1;
  if (null_allowed(op)) expect_errors(EB_ENOMEM | EB_EOVERFLOW);
  const bool bound = (mh >= 0 && H.heaps[mh].arena_slot >= 0);
  const uint64_t mmaps0 = g_os.calls[OS_MMAP];
  AllocResult r = call_alloc(op, h);
  if (bound && g_os.calls[OS_MMAP] != mmaps0 && sched_nthreads() == 1)
    sim_violation("arena_fallback", "%s through a heap bound to arena %d made the allocator call mmap (%llu calls): an arena-bound heap must never fall back to the OS", op_names[op.code], H.arenas[H.heaps[mh].arena_slot].id, (unsigned long long)(g_os.calls[OS_MMAP] - mmaps0));
  g_busy[s] = 0;
  T->initialized = true;
  H.allocs++;
  const char* what = op_names[op.code];
  g_api_hash.add((uint64_t)(uintptr_t)r.p ^ ((uint64_t)op.code << 48));
  if (r.p == nullptr) {
    H.nulls++; probe(PR_alloc_null);
    if (!null_allowed(op)) sim_violation("unexpected_null", "%s(a=%llu,b=%llu,c=%llu) returned NULL although the request is well-formed and the OS refused nothing", what, (unsigned long long)op.a, (unsigned long long)op.b, (unsigned long long)op.c);
    return;
  }
  T->alloc_ok = true;
  Block* b = new Block();
  b->p = (uint8_t*)r.p; b->req = r.req; b->align = r.align; b->offset = r.offset; b->id = H.next_block_id++;
  b->zchain = r.zero; b->prog = T->prog; b->subproc = T->subproc; b->slot = s;
  b->heap = (mh >= 0 ? mh : T->deflt); b->tagged = (b->heap >= 0 && H.heaps[b->heap].tag != 0);
  b->full_fill = (op.flags & OPF_FULL_FILL) != 0;
  sched_set_passthrough(true);
  b->usable = mi_usable_size(r.p);
  sched_set_passthrough(false);
  if (b->usable > (1u << 20)) probe(PR_huge_alloc, b->usable > (16u << 20) ? 1 : 0);
  bool natural = (op.code != OP_malloc_aligned_at && op.code != OP_zalloc_aligned_at && op.code != OP_calloc_aligned_at);
  check_new_block(b, what, natural);
  model_insert(b, what);
  if (r.zero) zero_check(b, b->p, 0, b->req, what);
  if (op.code == OP_strdup || op.code == OP_strndup) { /* content checked in call_alloc */ }
  if (!(op.flags & OPF_NO_FILL)) block_fill(b);
  H.slots[s] = b;
  if (op.flags & OPF_SENTINEL) { H.sentinel_bases.push_back((uintptr_t)b->p & ~(((uintptr_t)32 << 20) - 1)); H.sentinel_alloc_addr.push_back((uintptr_t)b->p); }   // page-level activity in this segment (a block with a page of its own)
  if (op.flags & OPF_WAIT) sched_notify(0x51070000ull + (uint64_t)s);
}

// ---------------------------------------------------------------------------------
// free
// ---------------------------------------------------------------------------------
static Block* take_slot(int s) {
  if (s < 0 || s >= (int)H.slots.size() || H.slots[s] == nullptr || g_busy[s]) return nullptr;
  Block* b = H.slots[s]; H.slots[s] = nullptr; return b;
}

static void do_free(const Op& op) {
  if ((op.flags & OPF_WAIT) && op.slot >= 0 && op.slot < (int)H.slots.size()) while (H.slots[op.slot] == nullptr) { if (!sched_wait(0x51070000ull + (uint64_t)op.slot)) break; }
  Block* b = take_slot(op.slot);
  if (!b) { H.ops_noop++; return; }
  if (op.flags & OPF_WAIT) sched_notify(0x51070000ull + (uint64_t)op.slot);
  // a block must be released within its own sub-process' threads? (no: any thread may free); verify contents first
  block_verify(b, "at free");
  usable_verify(b, "at free");
  model_remove(b);
  if (b->heap == -1) H.orphan_frees++;
  if (b->orphan_kind >= 2 && b->prog == T->prog) snprintf(T->note, sizeof T->note, " while thread %d releases block #%llu whose page was orphaned by mi_heap_delete of a %s heap", T->prog, (unsigned long long)b->id, b->orphan_kind == 2 ? "tagged" : "arena-bound");
  H.frees++;
  void* p = b->p;
  g_api_hash.add((uint64_t)(uintptr_t)p ^ 0xF4EEull);
  size_t al = b->align ? b->align : 1;
  while (al > 1 && ((uintptr_t)p % al) != 0) al >>= 1;
  if (op.flags & OPF_WATCH) H.watch.push_back(Harness::Watch{(uintptr_t)p, b->usable, g_os.log.size(), clock_now_ns() / 1000000ull, false, H.activity_rounds});
  if (op.flags & OPF_SENTINEL) { H.sentinel_bases.push_back((uintptr_t)p & ~(((uintptr_t)32 << 20) - 1)); H.sentinel_alloc_addr.push_back(0); }
  if ((op.flags & OPF_ZOMBIE) && b->prog != T->prog && b->heap >= 0 && b->align == 0 && b->usable >= 8 && b->usable + 8 <= 8192) H.zombies.push_back(Harness::Zombie{b->p, b->usable, b->heap, b->prog, false});
  switch (op.code) {
    case OP_free: mi_free(p); break;
    case OP_free_size: mi_free_size(p, b->req); break;
    case OP_free_size_aligned: mi_free_size_aligned(p, b->req, al); break;
    case OP_free_aligned: mi_free_aligned(p, al); break;
    case OP_cfree: mi_cfree(p); break;
    default: mi_free(p); break;
  }
  delete b;
}

// ---------------------------------------------------------------------------------
// realloc family
// ---------------------------------------------------------------------------------
static void do_realloc(const Op& op) {
  NewHandlerScope nhs(op);
  int s = op.slot;
  if (s < 0 || s >= (int)H.slots.size() || g_busy[s]) { H.ops_noop++; return; }
  Block* old = H.slots[s];
  int mh = heap_for_alloc(op);
  if (op.code == OP_reallocarray || op.code == OP_reallocarr || op.code == OP_expand || op.code == OP_new_realloc || op.code == OP_new_reallocn) mh = -2;
  mi_heap_t* h = (mh >= 0 ? heap_ptr(mh) : nullptr);
  const uint64_t a = op.a, bb = op.b, c = op.c, d = op.d;
  void* p = old ? old->p : nullptr;
  if (old) { block_verify(old, "before realloc"); model_remove(old); H.slots[s] = nullptr; H.limbo.push_back(old);
    if (old->orphan_kind >= 2 && old->prog == T->prog) snprintf(T->note, sizeof T->note, " while thread %d releases block #%llu whose page was orphaned by mi_heap_delete of a %s heap", T->prog, (unsigned long long)old->id, old->orphan_kind == 2 ? "tagged" : "arena-bound"); }
  g_busy[s] = 1;
  size_t newreq = 0; size_t align = 0, offset = 0; bool zero = false; bool is_expand = false; bool frees_on_fail = false; bool overflow = false;
  void* q = nullptr; int rc = 0;
  // accounting ("the old block is released exactly when a different pointer is returned"): with one thread and nothing that moves pages between
  // heaps, the number of used blocks over this thread's heaps is the same before and after a moving re-allocation
  bool count_ok = old != nullptr && sched_nthreads() <= 1 && old->prog == T->prog && old->heap >= 0 && old->orphan_kind == 0 && !H.forced_abandon_possible && mi_option_get(mi_option_target_segments_per_thread) <= 0;
  if (count_ok) for (auto& kv : H.live) if (kv.second->heap < 0) { count_ok = false; break; }      // pages abandoned by a deleted heap may be adopted (with their blocks) by the allocation inside the call
  auto used_total = [&]() { size_t n = 0; for (size_t i = 0; i < H.heaps.size(); i++) { MHeap& m = H.heaps[i]; if (!m.alive || m.prog != T->prog) continue; mi_heap_t* hh = (m.kind == HK_BACKING ? heap_ptr((int)i) : m.h); if (hh) n += heap_used_sum(hh, nullptr); } return n; };
  const size_t used_before = count_ok ? used_total() : 0;
  const bool fail_ok = null_allowed(op);
  if (fail_ok) expect_errors(EB_ENOMEM | EB_EOVERFLOW);
  auto mul = [&](uint64_t x, uint64_t y) { __uint128_t m = (__uint128_t)x * y; if (m >> 64) overflow = true; return (size_t)m; };
  errno = 0;
  switch (op.code) {
    case OP_realloc: newreq = a; q = h ? mi_heap_realloc(h, p, a) : mi_realloc(p, a); break;
    case OP_reallocn: newreq = mul(a, bb); q = h ? mi_heap_reallocn(h, p, a, bb) : mi_reallocn(p, a, bb); break;
    case OP_reallocf: newreq = a; frees_on_fail = true; q = h ? mi_heap_reallocf(h, p, a) : mi_reallocf(p, a); break;
    case OP_rezalloc: newreq = a; zero = true; q = h ? mi_heap_rezalloc(h, p, a) : mi_rezalloc(p, a); break;
    case OP_recalloc: newreq = mul(a, bb); zero = true; q = h ? mi_heap_recalloc(h, p, a, bb) : mi_recalloc(p, a, bb); break;
    case OP_realloc_aligned: newreq = a; align = bb; q = h ? mi_heap_realloc_aligned(h, p, a, bb) : mi_realloc_aligned(p, a, bb); break;
    case OP_realloc_aligned_at: newreq = a; align = bb; offset = c; q = h ? mi_heap_realloc_aligned_at(h, p, a, bb, c) : mi_realloc_aligned_at(p, a, bb, c); break;
    case OP_rezalloc_aligned: newreq = a; align = bb; zero = true; q = h ? mi_heap_rezalloc_aligned(h, p, a, bb) : mi_rezalloc_aligned(p, a, bb); break;
    case OP_rezalloc_aligned_at: newreq = a; align = bb; offset = c; zero = true; q = h ? mi_heap_rezalloc_aligned_at(h, p, a, bb, c) : mi_rezalloc_aligned_at(p, a, bb, c); break;
    case OP_recalloc_aligned: newreq = mul(a, bb); align = c; zero = true; q = h ? mi_heap_recalloc_aligned(h, p, a, bb, c) : mi_recalloc_aligned(p, a, bb, c); break;
    case OP_recalloc_aligned_at: newreq = mul(a, bb); align = c; offset = d; zero = true; q = h ? mi_heap_recalloc_aligned_at(h, p, a, bb, c, d) : mi_recalloc_aligned_at(p, a, bb, c, d); break;
    case OP_reallocarray: newreq = mul(a, bb); q = mi_reallocarray(p, a, bb); if (q == nullptr && errno != ENOMEM) sim_violation("api_contract", "mi_reallocarray failed without setting errno to ENOMEM (errno=%d)", errno); break;
    case OP_reallocarr: { newreq = mul(a, bb); void* pp = p; rc = mi_reallocarr(&pp, a, bb); q = (rc == 0 ? pp : nullptr);
      if (rc != 0 && pp != p) sim_violation("api_contract", "mi_reallocarr failed (%d) but changed the pointer", rc); break; }
    case OP_new_realloc: newreq = a; q = mi_new_realloc(p, a); break;
    case OP_new_reallocn: newreq = mul(a, bb); q = mi_new_reallocn(p, a, bb); break;
    case OP_expand: newreq = a; is_expand = true; q = mi_expand(p, a); break;
    default: break;
  }
  g_busy[s] = 0;
  if (old) for (size_t i = 0; i < H.limbo.size(); i++) if (H.limbo[i] == old) { H.limbo.erase(H.limbo.begin() + (long)i); break; }
  T->initialized = true;
  H.reallocs++;
  const char* what = op_names[op.code];
  g_api_hash.add((uint64_t)(uintptr_t)q ^ ((uint64_t)op.code << 48));
  // the aligned variants with the "keep the offset of the previous allocation" rule
  if (align != 0 && align <= sizeof(void*)) align = 0;   // small alignments fall back to plain realloc
  bool keeps_odd_offset = false;
  if (op.code == OP_realloc_aligned || op.code == OP_rezalloc_aligned || op.code == OP_recalloc_aligned) {
    // "re-allocating with the same alignment keeps the alignment": only an obligation if the input was aligned;
    // otherwise the allocator keeps (p mod alignment) as the offset and natural alignment is no obligation either
    offset = 0;
    if (p != nullptr && align != 0 && ((uintptr_t)p % align) != 0) { align = 0; keeps_odd_offset = true; }
  }
  if (align != 0 && !is_pow2(align)) align = 0;

  if (is_expand) {
    if (q != nullptr && q != p) sim_violation("expand_moved", "mi_expand(%p, %zu) returned a different pointer %p", p, newreq, q);
    if (old) {
      if (!is_padded_build()) {
        if (q == nullptr && newreq <= old->usable) sim_violation("expand_failed", "mi_expand(%p, %zu) failed although mi_usable_size is %zu", p, newreq, old->usable);
        if (q != nullptr && newreq > old->usable) sim_violation("expand_failed", "mi_expand(%p, %zu) succeeded beyond mi_usable_size %zu", p, newreq, old->usable);
      }
      // block unchanged
      model_insert(old, "expand"); H.slots[s] = old; block_verify(old, "after expand");
    }
    return;
  }

  if (q == nullptr) {
    H.nulls++; probe(PR_alloc_null);
    bool legit = fail_ok || null_allowed(op) || overflow || newreq > (size_t)PTRDIFF_MAX;
    if (overflow || newreq > (size_t)PTRDIFF_MAX) T->got_err_mask &= ~(EB_EOVERFLOW | EB_ENOMEM);   // the debug build reports the overflow
    if (!legit) sim_violation("unexpected_null", "%s(%p, %llu, %llu) returned NULL although the request is well-formed and the OS refused nothing", what, p, (unsigned long long)a, (unsigned long long)bb);
    if (old) {
      if (frees_on_fail) { delete old; }   // mi_reallocf released it
      else { model_insert(old, "realloc-failed"); H.slots[s] = old; block_verify(old, "after failed realloc"); }
    }
    return;
  }
  if (q != p) T->alloc_ok = true;     // an in-place result does not show that this thread's heap exists
  if (count_ok && q != p && !is_expand) { const size_t used_after = used_total(); if (used_after != used_before) sim_violation("realloc_leak", "%s(%p, ...) returned a different pointer %p but the number of used blocks of the thread's heaps went from %zu to %zu (the old block was %s)", op_names[op.code], p, q, used_before, used_after, used_after > used_before ? "not released" : "released twice, or another block was lost"); }
  sched_set_passthrough(true);
  size_t usable = mi_usable_size(q);
  sched_set_passthrough(false);
  const size_t oldreq = old ? old->req : 0;
  const size_t keep = old ? (oldreq < newreq ? oldreq : newreq) : 0;
  if (old) {
    // contents: the first min(old requested, new) bytes equal the old block's bytes
    Block tmp = *old; tmp.p = (uint8_t*)q; tmp.usable = keep; tmp.req = keep; tmp.zchain = false;
    size_t lim = keep;
    if (lim > 0) {
      auto chk = [&](size_t s0, size_t e0) {
        // only ranges the old block had a pattern on
        size_t bad = check_range((uint8_t*)q, old->id, s0, e0);
        if (bad != (size_t)-1) sim_violation("realloc_content", "%s(%p -> %p, %zu -> %zu): byte %zu differs from the old block (expected 0x%02x got 0x%02x)", what, p, q, oldreq, newreq, bad, pat_byte(old->id, bad), ((uint8_t*)q)[bad]);
      };
      if (old->usable <= FULL_FILL_MAX) { if (lim <= FULL_FILL_MAX) chk(0, lim); }
      else { // old block was sampled: compare the sampled ranges that survive
        size_t olim = pattern_limit(old);
        for_touched_ranges(old, olim, [&](size_t s0, size_t e0) { if (s0 >= lim) return; if (e0 > lim) e0 = lim; chk(s0, e0); });
      }
    }
  }
  Block* nb = new Block();
  nb->p = (uint8_t*)q; nb->req = newreq; nb->usable = usable; nb->id = H.next_block_id++; nb->align = align; nb->offset = offset;
  nb->prog = T->prog; nb->subproc = T->subproc; nb->slot = s; nb->full_fill = (op.flags & OPF_FULL_FILL) != 0;
  if (q == p && old) { nb->heap = old->heap; nb->prog = old->prog; nb->subproc = old->subproc; nb->orphan_kind = old->orphan_kind; nb->tagged = old->tagged; probe(PR_realloc_inplace); }
  else { nb->heap = (mh >= 0 ? mh : T->deflt); nb->tagged = (nb->heap >= 0 && H.heaps[nb->heap].tag != 0); probe(PR_realloc_moved); }
  // zero lineage
  bool was_z = old ? old->zchain : true;   // a NULL input behaves as a zeroing allocation for the z-variants
  nb->zchain = zero && was_z && newreq >= oldreq;
  if (q == p && old && !zero) nb->zchain = false;
  if (old && !zero) nb->zchain = false;
  if (keeps_odd_offset) nb->odd_origin = true;
  if (q == p && old && (old->odd_origin || old->offset != 0 || old->align != 0)) nb->odd_origin = true;
  check_new_block(nb, what, align == 0 && offset == 0 && !nb->odd_origin);
  model_insert(nb, what);
  if (zero && was_z && newreq > oldreq) zero_check(nb, nb->p, oldreq, newreq, what);
  block_fill(nb);
  H.slots[s] = nb;
  if (old) delete old;
}

// ---------------------------------------------------------------------------------
// heaps
// ---------------------------------------------------------------------------------
static void do_heap_op(const Op& op) {
  const int hs = op.hslot;
  switch (op.code) {
    case OP_heap_new: case OP_heap_new_ex: case OP_heap_new_in_arena: {
      if (hs < 0 || hs >= 8 || T->hslots[hs] >= 0) { H.ops_noop++; return; }
      int arena_slot = -1; mi_arena_id_t aid = 0;
      if ((op.code == OP_heap_new_in_arena || op.code == OP_heap_new_ex) && op.slot >= 0 && op.slot < (int)H.arenas.size() && H.arenas[op.slot].id != 0) { arena_slot = op.slot; aid = H.arenas[op.slot].id; }
      if (op.code == OP_heap_new_in_arena && arena_slot < 0) { H.ops_noop++; return; }
      expect_errors(EB_ENOMEM);
      mi_heap_t* h = nullptr; int kind = HK_NEW; int tag = 0; bool destroyable = true;
      if (op.code == OP_heap_new) h = mi_heap_new();
      else if (op.code == OP_heap_new_in_arena) { h = mi_heap_new_in_arena(aid); kind = HK_ARENA; destroyable = false; }
      else { tag = (int)(op.a & 0xFF); destroyable = op.b != 0; h = mi_heap_new_ex(tag, destroyable, aid); kind = (arena_slot >= 0 ? HK_ARENA : HK_EX); }
      T->initialized = true;
      if (h == nullptr) { if (!null_allowed(op) ) sim_violation("unexpected_null", "%s returned NULL", op_names[op.code]); return; }
      int mh = new_model_heap(T->prog, kind, h);
      H.heaps[mh].tag = tag; H.heaps[mh].destroyable = destroyable; H.heaps[mh].arena_slot = arena_slot; H.heaps[mh].hslot = hs;
      T->hslots[hs] = mh;
      break; }
    case OP_heap_delete: case OP_heap_destroy: {
      if (hs < 0 || hs >= 8 || T->hslots[hs] < 0) { H.ops_noop++; return; }
      int mh = T->hslots[hs]; MHeap& m = H.heaps[mh];
      bool destroy = (op.code == OP_heap_destroy) && m.destroyable;
      if (destroy) {
        probe(PR_heap_destroy);
        std::vector<Block*> gone;
        const bool fa = H.forced_abandon_possible || mi_option_get(mi_option_target_segments_per_thread) > 0;
        sched_set_passthrough(true);
        for (auto& kv : H.live) if (kv.second->heap == mh) {
          // with forced abandonment (target_segments_per_thread / mi_collect_reduce) a page may have left the heap: such blocks survive
          if (fa && !mi_heap_contains_block(m.h, kv.second->p)) { kv.second->heap = -1; continue; }
          gone.push_back(kv.second);
        }
        sched_set_passthrough(false);
        for (Block* b : gone) { block_verify(b, "before heap_destroy"); model_remove(b); if (b->slot >= 0 && H.slots[b->slot] == b) H.slots[b->slot] = nullptr; delete b; }
        mi_heap_destroy(m.h);
      } else {
        probe(PR_heap_absorb);
        resolve_backing();
        bool compatible = (m.tag == 0 && m.arena_slot < 0);
        // a heap the backing heap cannot absorb abandons its pages: from the first step of the call on another thread may adopt them
        if (!compatible) for (auto& kv : H.live) if (kv.second->heap == mh) { kv.second->heap = -1; kv.second->orphan_kind = (m.tag != 0 ? 2 : 3); if (m.tag != 0) H.tag_orphans_ever++; }
        if (!compatible) for (Block* lb : H.limbo) if (lb->heap == mh) { lb->heap = -1; lb->orphan_kind = (m.tag != 0 ? 2 : 3); }      // blocks another thread is re-allocating right now
        mi_heap_delete(m.h);
        if (compatible) for (auto& kv : H.live) if (kv.second->heap == mh) kv.second->heap = T->backing;
        if (compatible) for (Block* lb : H.limbo) if (lb->heap == mh) lb->heap = T->backing;
      }
      H.heaps[mh].alive = false; H.heaps[mh].h = nullptr; T->hslots[hs] = -1;
      if (T->deflt == mh) T->deflt = T->backing;
      if (destroy) verify_all_live("after heap_destroy");
      break; }
    case OP_heap_set_default: {
      int mh = (hs >= 0 && hs < 8 && T->hslots[hs] >= 0) ? T->hslots[hs] : T->backing;
      mi_heap_t* h = heap_ptr(mh);
      mi_heap_set_default(h); T->deflt = mh; T->initialized = true;
      break; }
    case OP_heap_collect: {
      int mh = (hs >= 0 && hs < 8 && T->hslots[hs] >= 0) ? T->hslots[hs] : -1;
      if (mh >= 0) mi_heap_collect(H.heaps[mh].h, op.a != 0); else mi_collect(op.a != 0);
      break; }
    case OP_collect: mi_collect(op.a != 0); break;
    case OP_collect_reduce: H.forced_abandon_possible = true; mi_collect_reduce((size_t)op.a); T->initialized = true; break;
    default: break;
  }
  oracle_after_heap_op();
}

// ---------------------------------------------------------------------------------
// arenas / sub-processes
// ---------------------------------------------------------------------------------
static void do_arena_op(const Op& op) {
  int as = op.slot;
  if (op.code == OP_reserve_arena || op.code == OP_manage_arena) {
    if (as < 0 || as >= 8) { H.ops_noop++; return; }
    if ((int)H.arenas.size() <= as) H.arenas.resize((size_t)as + 1);
    if (H.arenas[as].id != 0) { H.ops_noop++; return; }
    MArena ar; mi_arena_id_t id = 0;
    if (op.code == OP_reserve_arena) {
      expect_errors(EB_ENOMEM);
      // d bit0: allow large (2 MiB) OS pages; d bit1: reserve 1 GiB huge OS pages (both give a pinned arena when the simulated OS has such pages)
      int rc;
      if (op.d & 2) { size_t pages = (size_t)(op.a >> 30); if (pages < 1) pages = 1; rc = mi_reserve_huge_os_pages_at_ex(pages, (op.d & 4) ? 0 : -1, (op.d & 8) ? 2000 : 0, op.c != 0, &id); }
      else rc = mi_reserve_os_memory_ex((size_t)op.a, op.b != 0, (op.d & 1) != 0, op.c != 0, &id);
      if (rc != 0) { if (!null_allowed(op) && !(op.d & 3)) sim_violation("unexpected_null", "mi_reserve_os_memory_ex(%llu) failed with %d", (unsigned long long)op.a, rc); return; }   // huge / large page reservations may fail (none configured, hint not honoured)
      ar.exclusive = op.c != 0;
    } else {
      bool committed = (op.b & 1) != 0, exclusive = (op.b & 2) != 0, is_zero = (op.b & 4) != 0;
      size_t size = (size_t)op.a;
      uint8_t* reg = (uint8_t*)os_harness_map(size, 32u << 20, (size_t)op.c, committed);
      if (committed && !is_zero) { for (size_t off = 0; off < size; off += (size > (512u << 20) ? (16u << 20) : PG)) memset(reg + off, 0xA5, 64); }   // dirty content (head of every OS page)
      if (!mi_manage_os_memory_ex(reg, size, committed, false, is_zero, -1, exclusive, &id)) { if (!(op.flags & OPF_MAY_FAIL)) sim_violation("unexpected_null", "mi_manage_os_memory_ex(%p,%zu) failed", (void*)reg, size); return; }
      ar.exclusive = exclusive; ar.donated = true; ar.region = reg; ar.region_size = size;
    }
    ar.id = id; size_t sz = 0; ar.start = (uint8_t*)mi_arena_area(id, &sz); ar.size = sz;
    if (ar.start == nullptr || sz == 0) sim_violation("api_contract", "mi_arena_area(%d) reports no area for an arena that was just created", id);
    ar.pinned = os_is_hugetlb((uint64_t)(uintptr_t)ar.start); if (ar.pinned) probe(PR_pinned_arena);
    if (ar.donated && !(ar.start >= ar.region && ar.start + ar.size <= ar.region + ar.region_size)) sim_violation("arena_bounds", "arena %d area [%p,+%zu) is not inside the donated region [%p,+%zu)", id, (void*)ar.start, ar.size, (void*)ar.region, ar.region_size);
    H.arenas[as] = ar;
    T->initialized = true;
  } else if (op.code == OP_subproc_new) {
    if (as < 0 || as >= 4) { H.ops_noop++; return; }
    if ((int)H.subprocs.size() <= as) H.subprocs.resize((size_t)as + 1, nullptr);
    if (H.subprocs[as] == nullptr) { expect_errors(EB_ENOMEM); H.subprocs[as] = mi_subproc_new(); }
  } else if (op.code == OP_subproc_add) {
    if (as < 0 || as >= (int)H.subprocs.size() || H.subprocs[as] == nullptr || T->initialized || T->subproc != 0) { H.ops_noop++; return; }
    mi_subproc_add_current_thread(H.subprocs[as]); T->subproc = as + 1; T->initialized = true;
  }
}

// ---------------------------------------------------------------------------------
// threads
// ---------------------------------------------------------------------------------
static void prog_main(int vt, void* arg);

static void thread_exit_model(ThreadCtx* t) { orphan_thread_blocks(t->prog); }

static void do_thread_op(const Op& op, int /*idx*/) {
  switch (op.code) {
    case OP_spawn: {
      int pr = op.slot;
      if (pr <= 0 || pr >= (int)H.threads.size() || H.threads[pr].started) { H.ops_noop++; return; }
      H.threads[pr].started = true;
      int vt = sched_spawn(prog_main, (void*)(intptr_t)pr, H.plan->progs[pr].reuse_id || op.b != 0);
      g_prog_vt[pr] = vt; H.threads[pr].vt = vt;
      break; }
    case OP_join: {
      int pr = op.slot;
      if (pr <= 0 || pr >= (int)H.threads.size() || !H.threads[pr].started || pr == T->prog) { H.ops_noop++; return; }
      sched_join(g_prog_vt[pr]);
      break; }
    case OP_barrier: sched_barrier(op.slot, (int)op.a); break;     // slot = barrier id, a = parties
    case OP_thread_init: expect_errors(EB_ENOMEM); mi_thread_init(); T->initialized = true; break;     // creates the thread's heap and metadata without allocating anything else
    case OP_thread_done: {
      if (T->prog == 0) { H.ops_noop++; return; }   // the main thread never ends
      thread_exit_model(T);
      mi_thread_done();
      thread_ctx_fresh_heaps(T); T->subproc = 0;    // a later allocation creates a fresh thread heap in the main sub-process
      break; }
    case OP_advance: clock_advance_ms(op.a); break;
    case OP_heal_os: os_heal(); break;
    default: break;
  }
}

// ---------------------------------------------------------------------------------
// the interpreter
// ---------------------------------------------------------------------------------
static void check_error_callbacks(const Op& op) {
  if (!H.plan->check_error_callback) { T->got_err_mask = 0; T->got_err_count = 0; return; }
  int allowed = T->expect_err_mask;
  if (os_faults_fired() > 0 || os_any_fault_active()) allowed |= EB_ENOMEM;
  int bad = T->got_err_mask & ~allowed;
  if (bad) {
    size_t tag_orphans = 0; for (auto& kv : H.live) if (kv.second->orphan_kind == 2) tag_orphans++;
    // (a page of such a heap stays abandoned, and is met by a later reclaim, even after its blocks were freed: the frees stay pending in it)
    char ctx[200] = ""; if ((bad & EB_EFAULT) && H.tag_orphans_ever) snprintf(ctx, sizeof ctx, " [%zu live blocks were orphaned by the deletion/termination of a tagged heap (%zu of them still live)]", H.tag_orphans_ever, tag_orphans);
    // forced abandonment (target_segments_per_thread, mi_collect_reduce) gives pages of a live tagged heap away as well; when that heap may not adopt
    // (it is destroyable), the pages meet the same situation on their way back
    size_t tag_live = 0; for (auto& kv : H.live) if (kv.second->tagged) tag_live++;
    if ((bad & EB_EFAULT) && ctx[0] == 0 && tag_live && (H.forced_abandon_possible || mi_option_get(mi_option_target_segments_per_thread) > 0)) snprintf(ctx, sizeof ctx, " [%zu live blocks of tagged heaps with forced abandonment on: their pages were given away like those orphaned by the deletion/termination of a tagged heap]", tag_live);
    sim_violation("error_callback", "operation %s reported error class 0x%x through the error callback (allowed 0x%x)%s; last message: %.200s", op_names[op.code], bad, allowed, ctx, g_last_out);
  }
  T->got_err_mask = 0; T->got_err_count = 0;
}

static void sample_verify() {
  if (!H.plan->sample_verify || H.live.empty()) return;
  // verify up to 3 random live blocks (not huge ones every time)
  for (int k = 0; k < 3; k++) {
    uintptr_t key = (uintptr_t)H.vrng.next();
    auto it = H.live.lower_bound((uintptr_t)(H.live.begin()->first + key % ((H.live.rbegin()->first - H.live.begin()->first) + 1)));
    if (it == H.live.end()) it = H.live.begin();
    Block* b = it->second;
    if (b->usable > FULL_FILL_MAX && (H.vrng.next() & 7)) continue;
    block_verify(b, "sampled after an operation");
  }
}

// Latent undersized small allocation (C01/C03): when the direct small-page table of one of this thread's heaps points at a page whose
// blocks are smaller than the entry's size (read by sim/peek.c; nothing is reported from the peek alone), perform exactly that allocation
// and judge the block it returns like any other: the violation reported is the real mi_heap_malloc handing out too small a block.
extern "C" size_t sim_peek_stale_direct(const mi_heap_t* heap);
static void latent_undersize_probe() {
  if (!T->alloc_ok) return;
  for (size_t i = 0; i < H.heaps.size(); i++) {
    MHeap& m = H.heaps[i];
    if (!m.alive || m.prog != T->prog || m.h == nullptr) continue;
    const size_t req = sim_peek_stale_direct(m.h);
    if (req == 0) continue;
    sched_call_begin();
    void* q = mi_heap_malloc(m.h, req);
    if (q == nullptr) continue;
    sched_set_passthrough(true); const size_t us = mi_usable_size(q); sched_set_passthrough(false);
    if (us < req) sim_violation("usable_size", "mi_heap_malloc(%zu) after this operation returns %p with mi_usable_size %zu, less than requested: the heap's direct small-page table points at a page of a smaller size class", req, q, us);
    for (auto& kv : H.live) { Block* b = kv.second; if ((uint8_t*)q < b->p + b->usable && b->p < (uint8_t*)q + req) sim_violation("overlap", "mi_heap_malloc(%zu) after this operation returns %p, inside live block #%llu (%p, %zu bytes)", req, q, (unsigned long long)b->id, (void*)b->p, b->usable); }
    sched_call_begin(); mi_free(q);
  }
}

static void exec_op(const Op& op, int idx) {
  T->cur_op = idx;
  os_set_context(T->prog, idx);
  sched_harness_point(idx);
  sched_set_op(op.uid >= 0 ? op.uid : idx);
  sched_call_begin();
  T->expect_err_mask = 0; T->note[0] = 0;
  H.ops_executed++;
  int c = op.code;
  if (H.plan->auto_advance_every && (H.ops_executed % H.plan->auto_advance_every) == 0) clock_advance_ms(H.plan->auto_advance_ms);
  if (c <= OP_cfree) H.work_hash += mix64(((uint64_t)c << 32) ^ (uint64_t)(uint32_t)op.slot, op.a ^ (op.b << 20) ^ (op.c << 40));
  if (c == OP_collect && op.a == 0) H.activity_rounds++;
  if (c == OP_fill_page) {
    // allocate blocks of size a into the empty slots of [slot, slot+c) until a block lands in another 64 KiB page than the first one of
    // this operation (i.e. the page in use was filled up and a new one was opened), at most b blocks
    uintptr_t first_page = 0; uint64_t n = 0;
    for (int sl = op.slot; sl >= 0 && sl < op.slot + (int)op.c && sl < (int)H.slots.size() && n < op.b; sl++) {
      if (H.slots[sl] != nullptr || g_busy[sl]) continue;
      Op o; o.code = OP_malloc; o.slot = sl; o.a = op.a; o.hslot = op.hslot; o.flags = op.flags;
      sched_call_begin(); do_alloc(o); n++;
      if (H.slots[sl] == nullptr) break;
      uintptr_t pg = (uintptr_t)H.slots[sl]->p >> 16;
      if (first_page == 0) first_page = pg; else if (pg != first_page) break;
    }
  }
  else if (c == OP_free_page) {
    // free the blocks of this thread that lie in the same 64 KiB page as the block in `slot` (and have its size class), leaving `a` of them live
    Block* ref = (op.slot >= 0 && op.slot < (int)H.slots.size()) ? H.slots[op.slot] : nullptr;
    if (!ref) { H.ops_noop++; }
    else {
      std::vector<int> victims; const uintptr_t pg = (uintptr_t)ref->p >> 16; const size_t us = ref->usable;
      for (size_t sl = 0; sl < H.slots.size(); sl++) { Block* b = H.slots[sl]; if (b && !g_busy[sl] && b->prog == T->prog && ((uintptr_t)b->p >> 16) == pg && b->usable == us) victims.push_back((int)sl); }
      if (op.b & 1) std::reverse(victims.begin(), victims.end());
      size_t nfree = victims.size() > op.a ? victims.size() - (size_t)op.a : 0;
      if (op.c > 0 && nfree > op.c) nfree = (size_t)op.c;      // c: free at most that many
      for (size_t i = 0; i < nfree; i++) { Op o; o.code = OP_free; o.slot = victims[i]; sched_call_begin(); do_free(o); }
    }
  }
  else if (c >= OP_malloc && c <= OP_new_aligned_nothrow) do_alloc(op);
  else if (c >= OP_realloc && c <= OP_expand) do_realloc(op);
  else if (c >= OP_free && c <= OP_cfree) do_free(op);
  else if (c >= OP_heap_new && c <= OP_collect_reduce) do_heap_op(op);
  else if (c >= OP_reserve_arena && c <= OP_subproc_add) do_arena_op(op);
  else if (c >= OP_spawn && c <= OP_nop) do_thread_op(op, idx);
  else run_oracle_op(op);
  sched_sb_flush();
  check_error_callbacks(op);
  latent_undersize_probe();
  sample_verify();
  if (g_cfg.trace) {
    Block* tb = (op.slot >= 0 && op.slot < (int)H.slots.size() && c <= OP_cfree) ? H.slots[op.slot] : nullptr;
    sim_note("op p%d#%d %s slot=%d h=%d a=%llu -> %p req=%zu heap=%d t=%llums", T->prog, idx, op_names[c], op.slot, op.hslot, (unsigned long long)op.a, tb ? (void*)tb->p : nullptr, tb ? tb->req : 0, tb ? tb->heap : -9, (unsigned long long)(clock_now_ns() / 1000000ull));
  }
}

static void prog_main(int vt, void* arg) {
  int pr = (int)(intptr_t)arg;
  ThreadCtx* t = &H.threads[pr];
  T = t; t->vt = vt; t->prog = pr;
  sched_set_logical(pr);
  if (pr == 0) {
    os_set_context(0, -1);
    _mi_process_load();
    mi_register_error(&on_error, nullptr);
    mi_register_output(&on_output, nullptr);
  }
  const Program& P = H.plan->progs[pr];
  for (size_t i = 0; i < P.ops.size(); i++) exec_op(P.ops[i], (int)i);
  t->cur_op = (int)P.ops.size();
  os_set_context(pr, (int)P.ops.size());
  if (pr == 0) {
    // end of run: wait for everybody, then every live block must still be intact
    for (size_t k = 1; k < H.threads.size(); k++) if (H.threads[k].started) sched_join(g_prog_vt[k]);
    verify_all_live("at the end of the run");
    sim_finish_ok();
  }
  sched_call_begin();
  thread_exit_model(t);      // from here on the thread's pages may be adopted by anybody
  if (P.explicit_done) mi_thread_done();
  sched_run_tls_destructor();      // a real thread exit runs the key destructor also after an explicit mi_thread_done (it finds the empty heap, or whatever
                                   // heap the thread created again in the meantime: the debug build re-initialises the thread inside mi_thread_done for its statistics)
  t->done = true;
}

static void result_extra(JsonOut& o) {
  o.kv("ops", H.ops_executed); o.kv("ops_noop", H.ops_noop); o.kv("allocs", H.allocs); o.kv("frees", H.frees); o.kv("reallocs", H.reallocs);
  o.kv("nulls", H.nulls); o.kv("live_at_end", (uint64_t)H.live.size()); o.kv("bytes_verified", H.bytes_verified);
  o.kvs("build", SIM_BUILD);
  if (T) { o.kvi("prog", T->prog); o.kvi("op", T->cur_op);
    if (T->cur_op >= 0 && T->cur_op < (int)H.plan->progs[T->prog].ops.size()) o.kvs("op_name", op_names[H.plan->progs[T->prog].ops[T->cur_op].code]); }
  o.kvs("family", H.plan->family); o.kvs("property", H.plan->property);
  o.kv("misuse_expected", H.misuse_expected); o.kv("misuse_detected", H.misuse_detected);
  if (H.pc_samples) { o.kv("pc_max_pages", H.pc_max_pages); o.kv("pc_max_accessible", H.pc_max_accessible); o.kv("pc_samples", H.pc_samples); }
  if (!H.fp_mapped.empty()) {
    std::string s = "["; for (size_t i = 0; i < H.fp_mapped.size(); i++) { char b[96]; snprintf(b, sizeof b, "%s[%llu,%llu,%llu]", i ? "," : "", (unsigned long long)H.fp_mapped[i], (unsigned long long)H.fp_resident[i], (unsigned long long)H.fp_accessible[i]); s += b; } s += "]";
    o.kvraw("footprint", s);
  }
}

static void purge_hook(int kind, uint64_t addr, uint64_t len);
extern const char* (*g_op_name_of)(int prog, int op);

[[noreturn]] void harness_run(const Plan& plan) {
  g_sim_build_name = SIM_BUILD;
  H.plan = &plan;
  H.slots.assign((size_t)plan.nslots, nullptr); g_busy.assign((size_t)plan.nslots, 0);
  H.threads.resize(plan.progs.size()); g_prog_vt.assign(plan.progs.size(), -1);
  for (size_t i = 0; i < plan.progs.size(); i++) { H.threads[i].prog = (int)i; thread_ctx_fresh_heaps(&H.threads[i]); }
  H.threads[0].started = true; g_prog_vt[0] = 0;
  H.vrng.seed(mix64(plan.seed, 0x7E71F7));
  std::vector<FaultSpec> fs;
  for (size_t pi = 0; pi < plan.progs.size(); pi++) for (size_t oi = 0; oi < plan.progs[pi].ops.size(); oi++)
    for (auto& f : plan.progs[pi].ops[oi].faults) { FaultSpec x; x.vt = (int)pi; x.op = (int)oi; x.kind = f.kind; x.nth = f.nth; x.err = f.err; x.persistent = f.persistent; fs.push_back(x); }
  os_set_faults(fs);
  g_result_extra = &result_extra;
  g_crash_context = []() -> const char* {
    if (!T) return "";
    if (T->note[0] == 0) for (auto& kv : H.live) if (kv.second->orphan_kind >= 2 && kv.second->prog == T->prog) {
      snprintf(T->note, sizeof T->note, " while thread %d still owns segments with pages that were orphaned by mi_heap_delete of a %s heap (block #%llu)", T->prog, kv.second->orphan_kind == 2 ? "tagged" : "arena-bound", (unsigned long long)kv.second->id);
      break;
    }
    return T->note; };
  g_abort_is_expected = []() -> bool { return T && T->misuse_in_progress && is_dbg_build() && (T->got_err_mask & (EB_EFAULT | EB_EAGAIN)) != 0; };
  g_op_name_of = [](int prog, int op) -> const char* { if (prog >= 0 && prog < (int)H.plan->progs.size() && op >= 0 && op < (int)H.plan->progs[prog].ops.size()) return op_names[H.plan->progs[prog].ops[op].code]; return "thread start/exit"; };
  if (plan.purge_overlap_check) g_os_purge_hook = &purge_hook;
  sched_run(prog_main, (void*)0);
}

// "purging only ever affects memory that holds no live block": checked at the moment of the OS call
static void purge_hook(int kind, uint64_t addr, uint64_t len) {
  if (H.live.empty()) return;
  auto it = H.live.lower_bound((uintptr_t)addr);
  if (it != H.live.begin()) { auto jt = it; --jt; Block* b = jt->second; if ((uintptr_t)b->p + b->usable > addr) it = jt; }
  for (; it != H.live.end() && it->first < addr + len; ++it) {
    Block* b = it->second;
    uintptr_t bs = (uintptr_t)b->p, be = bs + b->usable;
    if (be <= addr || bs >= addr + len) continue;
    sim_violation("purge_live", "%s on [0x%llx,+0x%llx) overlaps live block #%llu at %p (usable %zu, slot %d, allocated by thread %d)", os_kind_names[kind],
                  (unsigned long long)addr, (unsigned long long)len, (unsigned long long)b->id, (void*)b->p, b->usable, b->slot, b->prog);
  }
}
