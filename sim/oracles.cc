// oracles.cc -- oracle operations evaluated inside a run (DESIGN.md sections 5.3 and 7)
#include "harness.h"
#include <errno.h>
#include <stdio.h>
#include <stdlib.h>
#include <string.h>
#include <algorithm>

bool os_region_unmap_refused(uint64_t start);
void oracle_misuse_op(const Op& op);      // misuse.cc (C17)
void oracle_bad_request(const Op& op);    // badreq.cc (C06)
void oracle_purge_check(const Op& op);    // purge.cc (C18)

bool forced_abandon_possible_pub();
static bool forced_abandon_possible() { return H.forced_abandon_possible || mi_option_get(mi_option_target_segments_per_thread) > 0; }

bool forced_abandon_possible_pub() { return forced_abandon_possible(); }

// ---------------------------------------------------------------------------------
// heap walking (C12) and derived oracles
// ---------------------------------------------------------------------------------
struct VisitedBlock { uint8_t* start; size_t size; int area; };
struct VisitedArea { uint8_t* blocks; size_t used, block_size, full_block_size, committed, reserved; size_t seen; int tag; };
struct VisitRec {
  std::vector<VisitedBlock> blocks; std::vector<VisitedArea> areas;
  long stop_after = -1; long callbacks = 0; bool stopped = false;
};

static bool visitor_fn(const mi_heap_t*, const mi_heap_area_t* area, void* block, size_t block_size, void* arg) {
  VisitRec* r = (VisitRec*)arg;
  if (r->stopped) sim_violation("visit_stop", "the visitor was called again after it returned false");
  r->callbacks++;
  if (block == nullptr) r->areas.push_back(VisitedArea{(uint8_t*)area->blocks, area->used, area->block_size, area->full_block_size, area->committed, area->reserved, 0, area->heap_tag});
  else { r->blocks.push_back(VisitedBlock{(uint8_t*)block, block_size, (int)r->areas.size() - 1}); if (!r->areas.empty()) r->areas.back().seen++; }
  if (r->stop_after >= 0 && r->callbacks > r->stop_after) { r->stopped = true; return false; }
  return true;
}

// descriptors (mi_heap_t objects) of the calling thread's other live heaps are blocks of its backing heap
static bool is_heap_descriptor(uint8_t* start, size_t size, int prog) {
  for (auto& m : H.heaps) if (m.alive && m.prog == prog && m.kind != HK_BACKING && m.h != nullptr) {
    uint8_t* d = (uint8_t*)m.h; if (d >= start && d < start + size) return true;
  }
  return false;
}
static size_t live_descriptors(int prog) { size_t n = 0; for (auto& m : H.heaps) if (m.alive && m.prog == prog && m.kind != HK_BACKING && m.h != nullptr) n++; return n; }

// match visited ranges against the model blocks that the model attributes to `mh` (orphans may have been adopted)
static void match_heap_visit(const VisitRec& r, int mh, const char* what) {
  std::vector<const VisitedBlock*> v; for (auto& b : r.blocks) v.push_back(&b);
  std::sort(v.begin(), v.end(), [](const VisitedBlock* a, const VisitedBlock* b) { return a->start < b->start; });
  for (size_t i = 1; i < v.size(); i++) if (v[i - 1]->start + v[i - 1]->size > v[i]->start)
    sim_violation("visit_overlap", "%s: visited ranges [%p,+%zu) and [%p,+%zu) overlap", what, (void*)v[i - 1]->start, v[i - 1]->size, (void*)v[i]->start, v[i]->size);
  std::vector<int> hits(v.size(), 0);
  const bool backing = (H.heaps[mh].kind == HK_BACKING);
  // every model block of this heap is enclosed by exactly one visited range
  for (auto& kv : H.live) {
    Block* b = kv.second;
    auto it = std::upper_bound(v.begin(), v.end(), b->p, [](const uint8_t* p, const VisitedBlock* x) { return p < x->start; });
    const VisitedBlock* vb = (it == v.begin() ? nullptr : *(it - 1));
    bool enclosed = vb && vb->start <= b->p && b->p + b->usable <= vb->start + vb->size;
    if (b->heap == mh && !enclosed && forced_abandon_possible()) { b->heap = -1; probe(PR_force_abandon); continue; }
    if (b->heap >= 0 && b->heap != mh && enclosed && forced_abandon_possible()) { b->heap = -1; probe(PR_force_abandon); }
    if (b->heap == mh) {
      if (!enclosed) sim_violation("visit_missing", "%s: live block #%llu at %p (usable %zu, slot %d) of this heap was not reported by the walk (nearest visited range %p,+%zu)", what, (unsigned long long)b->id, (void*)b->p, b->usable, b->slot, vb ? (void*)vb->start : nullptr, vb ? vb->size : 0);
      hits[(size_t)(it - 1 - v.begin())]++;
    } else if (enclosed) {
      if (b->heap == -1) { // an orphan that this heap has adopted
        if (H.heaps[mh].destroyable) sim_violation("adopt_destroyable", "%s: block #%llu at %p left behind by terminated thread %d is now owned by a heap that can be destroyed (mi_heap_new); destroying it would free a live block of another thread", what, (unsigned long long)b->id, (void*)b->p, b->prog);
        b->heap = mh; hits[(size_t)(it - 1 - v.begin())]++;
      } else sim_violation("visit_foreign", "%s: the walk reports [%p,+%zu) which holds live block #%llu that belongs to another heap (model heap %d of thread %d)", what, (void*)vb->start, vb->size, (unsigned long long)b->id, b->heap, H.heaps[b->heap].prog);
    }
  }
  size_t descr = 0;
  for (size_t i = 0; i < v.size(); i++) {
    if (hits[i] == 1) continue;
    if (hits[i] > 1) sim_violation("visit_two_blocks", "%s: visited range [%p,+%zu) encloses %d live blocks", what, (void*)v[i]->start, v[i]->size, hits[i]);
    if (backing && is_heap_descriptor(v[i]->start, v[i]->size, H.heaps[mh].prog)) { descr++; continue; }
    sim_violation("visit_freed", "%s: visited range [%p,+%zu) does not hold any live block (a freed or never allocated block is reported)", what, (void*)v[i]->start, v[i]->size);
  }
  // per area: used == number of blocks reported for it
  for (auto& a : r.areas) if (a.used != a.seen)
    sim_violation("visit_used", "%s: area at %p (block size %zu) reports used=%zu but %zu blocks were visited in it", what, (void*)a.blocks, a.block_size, a.used, a.seen);
  probe(PR_visit_checked);
}

// Σ used over all areas of a heap (passthrough: a pure query)
size_t heap_used_sum(mi_heap_t* h, size_t* pages) {
  VisitRec r; sched_set_passthrough(true); mi_heap_visit_blocks(h, false, &visitor_fn, &r); sched_set_passthrough(false);
  size_t used = 0; for (auto& a : r.areas) used += a.used; if (pages) *pages = r.areas.size(); return used;
}

static void do_visit_heap(const Op& op) {
  int mh = (op.hslot >= 0 && op.hslot < 8 && T->hslots[op.hslot] >= 0) ? T->hslots[op.hslot] : T->deflt;
  mi_heap_t* h = heap_ptr(mh);
  if (!h) { H.ops_noop++; return; }
  VisitRec r;
  mi_heap_visit_blocks(h, true, &visitor_fn, &r);
  char what[64]; snprintf(what, sizeof what, "mi_heap_visit_blocks(heap slot %d)", op.hslot);
  match_heap_visit(r, mh, what);
  // areas only
  VisitRec r2; mi_heap_visit_blocks(h, false, &visitor_fn, &r2);
  if (!r2.blocks.empty()) sim_violation("visit_areas_only", "%s with visit_blocks=false reported %zu blocks", what, r2.blocks.size());
  if (r2.areas.size() != r.areas.size()) sim_violation("visit_areas_only", "%s: %zu areas with blocks, %zu areas without", what, r.areas.size(), r2.areas.size());
  // early stop: the visitor returns false on callback number k
  if (r.callbacks > 1) {
    VisitRec r3; r3.stop_after = (long)(op.a % (uint64_t)r.callbacks);
    mi_heap_visit_blocks(h, true, &visitor_fn, &r3);
    if (r3.callbacks != r3.stop_after + 1) sim_violation("visit_stop", "%s: visitor returned false at callback %ld but received %ld callbacks", what, r3.stop_after + 1, r3.callbacks);
  }
}

// Σ used over the areas of a heap == number of model blocks (+ descriptors); no area at all for an empty heap
static void do_expect_heap_count(const Op& op) {
  int mh = (op.hslot >= 0 && op.hslot < 8 && T->hslots[op.hslot] >= 0) ? T->hslots[op.hslot] : T->deflt;
  mi_heap_t* h = heap_ptr(mh);
  if (!h) { H.ops_noop++; return; }
  mi_heap_collect(h, op.a != 0);
  VisitRec r; mi_heap_visit_blocks(h, false, &visitor_fn, &r);
  size_t used = 0; for (auto& a : r.areas) used += a.used;
  if (forced_abandon_possible()) { sched_set_passthrough(true); for (auto& kv : H.live) if (kv.second->heap == mh && !mi_heap_contains_block(h, kv.second->p)) kv.second->heap = -1; sched_set_passthrough(false); }
  size_t model = 0; for (auto& kv : H.live) if (kv.second->heap == mh) model++;
  size_t descr = (H.heaps[mh].kind == HK_BACKING ? live_descriptors(T->prog) : 0);
  // orphans adopted by this heap are legitimately counted by the allocator: count those whose page belongs to the heap
  size_t adopted = 0;
  sched_set_passthrough(true);
  for (auto& kv : H.live) if (kv.second->heap == -1 && mi_heap_contains_block(h, kv.second->p)) adopted++;
  sched_set_passthrough(false);
  if (used != model + descr + adopted)
    sim_violation("heap_count", "after all remote frees completed and mi_heap_collect(force=%d): the heap (slot %d) reports %zu used blocks in %zu pages but the program holds %zu live blocks of it (+%zu heap descriptors, +%zu adopted)", (int)(op.a != 0), op.hslot, used, r.areas.size(), model, descr, adopted);
  if (model + descr + adopted == 0 && !r.areas.empty())
    sim_violation("heap_not_empty", "all blocks of the heap (slot %d) were freed and the owner collected, but it still holds %zu pages", op.hslot, r.areas.size());
}

// ---------------------------------------------------------------------------------
// ownership queries (O7)
// ---------------------------------------------------------------------------------
static void check_owner_of(Block* b) {
  int claims = 0; int claimer = -1;
  if (b->heap >= 0 && H.heaps[b->heap].prog == T->prog && forced_abandon_possible()) {
    // forced abandonment (target_segments_per_thread / mi_collect_reduce): pages may legitimately leave their heap
    mi_heap_t* oh = (H.heaps[b->heap].kind == HK_BACKING ? heap_ptr(b->heap) : H.heaps[b->heap].h);
    if (oh && !mi_heap_contains_block(oh, b->p)) { b->heap = -1; probe(PR_force_abandon); }
  }
  for (size_t i = 0; i < H.heaps.size(); i++) {
    MHeap& m = H.heaps[i];
    if (!m.alive || m.prog != T->prog) continue;
    mi_heap_t* h = (m.kind == HK_BACKING ? heap_ptr((int)i) : m.h);
    if (!h) continue;
    bool c = mi_heap_contains_block(h, b->p);
    if (c) { claims++; claimer = (int)i; }
    bool mine = (b->heap == (int)i);
    if (mine && !c) sim_violation("owner", "mi_heap_contains_block is false for block #%llu (%p) and the heap it was allocated in / migrated to (model heap %zu, kind %d)", (unsigned long long)b->id, (void*)b->p, i, m.kind);
    if (!mine && c && b->heap != -1 && forced_abandon_possible()) { b->heap = -1; probe(PR_force_abandon); }   // force-abandoned by its owner, adopted here
    if (!mine && c && b->heap != -1) sim_violation("owner", "mi_heap_contains_block is true for block #%llu (%p) and heap %zu (kind %d) although it belongs to model heap %d (thread %d)", (unsigned long long)b->id, (void*)b->p, i, m.kind, b->heap, H.heaps[b->heap].prog);
    if (mine && ((uintptr_t)b->p & 7) == 0 && !mi_heap_check_owned(h, b->p)) sim_violation("owner", "mi_heap_check_owned is false for block #%llu (%p) in its own heap", (unsigned long long)b->id, (void*)b->p);
    if (!mine && b->heap != -1 && !forced_abandon_possible() && mi_heap_check_owned(h, b->p)) sim_violation("owner", "mi_heap_check_owned is true for block #%llu (%p) in a heap that does not own it", (unsigned long long)b->id, (void*)b->p);
  }
  if (claims > 1) sim_violation("owner", "block #%llu (%p) is claimed by %d heaps of thread %d", (unsigned long long)b->id, (void*)b->p, claims, T->prog);
  if (b->heap == -1 && claims == 1) {
    MHeap& m = H.heaps[claimer];
    if (m.destroyable) sim_violation("adopt_destroyable", "block #%llu at %p left behind by terminated thread %d is now owned by a heap created with mi_heap_new (destroyable): mi_heap_destroy on it would free a live block of another thread", (unsigned long long)b->id, (void*)b->p, b->prog);
    if (m.arena_slot < 0) { for (auto& ar : H.arenas) if (ar.id && ar.exclusive && b->p >= ar.start && b->p < ar.start + ar.size) sim_violation("arena_private", "block #%llu at %p inside exclusive arena %d was adopted by a heap that is not bound to that arena", (unsigned long long)b->id, (void*)b->p, ar.id); }
    if (m.arena_slot >= 0) { const MArena& ar = H.arenas[m.arena_slot]; if (ar.id && !(b->p >= ar.start && b->p < ar.start + ar.size)) sim_violation("arena_escape", "block #%llu at %p outside arena %d was adopted by a heap that is bound to that arena", (unsigned long long)b->id, (void*)b->p, ar.id); }
    if (b->subproc != T->subproc) sim_violation("subproc", "block #%llu of sub-process %d was adopted by a thread of sub-process %d", (unsigned long long)b->id, b->subproc, T->subproc);
    b->heap = claimer;
  }
}

void oracle_after_heap_op() {
  if (H.live.empty() || !T->initialized) return;
  sched_set_passthrough(true);
  int n = 0;
  for (auto it = H.live.begin(); it != H.live.end() && n < 6; ++it) {
    if ((H.vrng.next() % (H.live.size() / 6 + 1)) != 0) continue;
    check_owner_of(it->second); n++;
  }
  sched_set_passthrough(false);
}

// ---------------------------------------------------------------------------------
// census (C09): every model block appears exactly once in (heaps of the caller) U (abandoned)
// ---------------------------------------------------------------------------------
static void do_census(const Op& op) {
  (void)op;
  // only meaningful when every other thread has ended
  for (size_t k = 0; k < H.threads.size(); k++) if ((int)k != T->prog && H.threads[k].started && !H.threads[k].done) { H.ops_noop++; return; }
  if (mi_option_get(mi_option_visit_abandoned) == 0) { H.ops_noop++; return; }
  std::map<uint8_t*, int> seen;   // visited start -> count
  std::vector<VisitedBlock> all;
  auto add = [&](VisitRec& r, int where) { for (auto& b : r.blocks) { VisitedBlock x = b; x.area = where; all.push_back(x); } };
  for (size_t i = 0; i < H.heaps.size(); i++) {
    MHeap& m = H.heaps[i]; if (!m.alive || m.prog != T->prog) continue;
    mi_heap_t* h = (m.kind == HK_BACKING ? heap_ptr((int)i) : m.h); if (!h) continue;
    VisitRec r; mi_heap_visit_blocks(h, true, &visitor_fn, &r); add(r, (int)i);
  }
  { VisitRec r; mi_abandoned_visit_blocks(mi_subproc_main(), -1, true, &visitor_fn, &r); add(r, -1); }
  for (size_t s = 0; s < H.subprocs.size(); s++) if (H.subprocs[s]) { VisitRec r; mi_abandoned_visit_blocks(H.subprocs[s], -1, true, &visitor_fn, &r); add(r, -2 - (int)s); }
  std::sort(all.begin(), all.end(), [](const VisitedBlock& a, const VisitedBlock& b) { return a.start < b.start; });
  for (size_t i = 1; i < all.size(); i++) if (all[i - 1].start + all[i - 1].size > all[i].start)
    sim_violation("census_twice", "memory [%p,+%zu) is reported by two owners at once (%d and %d; >=0 heap of the caller, -1 abandoned list, <=-2 abandoned list of a sub-process)", (void*)all[i].start, all[i].size, all[i - 1].area, all[i].area);
  for (auto& kv : H.live) {
    Block* b = kv.second;
    auto it = std::upper_bound(all.begin(), all.end(), b->p, [](const uint8_t* p, const VisitedBlock& x) { return p < x.start; });
    bool ok = (it != all.begin()) && (it - 1)->start <= b->p && b->p + b->usable <= (it - 1)->start + (it - 1)->size;
    if (!ok) sim_violation("census_lost", "live block #%llu at %p (allocated by thread %d, sub-process %d) is owned by nobody: neither a heap of the remaining thread nor the abandoned lists report it", (unsigned long long)b->id, (void*)b->p, b->prog, b->subproc);
    int where = (it - 1)->area;
    if (where <= -1) { int sp = (where == -1 ? 0 : -where - 1); if (sp != b->subproc) sim_violation("subproc", "block #%llu of sub-process %d is listed as abandoned in sub-process %d", (unsigned long long)b->id, b->subproc, sp); }
    else if (b->subproc != T->subproc) sim_violation("subproc", "block #%llu of sub-process %d is owned by a heap of a thread of sub-process %d", (unsigned long long)b->id, b->subproc, T->subproc);
  }
  probe(PR_census);
}

static void do_visit_abandoned(const Op& op) {
  if (mi_option_get(mi_option_visit_abandoned) == 0) { H.ops_noop++; return; }
  for (size_t k = 0; k < H.threads.size(); k++) if ((int)k != T->prog && H.threads[k].started && !H.threads[k].done) { H.ops_noop++; return; }
  VisitRec r; mi_abandoned_visit_blocks(mi_subproc_main(), -1, true, &visitor_fn, &r);
  // every visited block must hold exactly one orphan block of the model; areas report used == visited
  std::vector<VisitedBlock> v = r.blocks;
  std::sort(v.begin(), v.end(), [](const VisitedBlock& a, const VisitedBlock& b) { return a.start < b.start; });
  std::vector<int> hits(v.size(), 0);
  for (auto& kv : H.live) {
    Block* b = kv.second;
    auto it = std::upper_bound(v.begin(), v.end(), b->p, [](const uint8_t* p, const VisitedBlock& x) { return p < x.start; });
    if (it == v.begin()) continue;
    const VisitedBlock& vb = *(it - 1);
    if (vb.start <= b->p && b->p + b->usable <= vb.start + vb.size) {
      if (b->heap != -1 && forced_abandon_possible()) { b->heap = -1; probe(PR_force_abandon); }
      if (b->heap != -1) sim_violation("visit_foreign", "mi_abandoned_visit_blocks reports block #%llu at %p which belongs to a live heap", (unsigned long long)b->id, (void*)b->p);
      hits[(size_t)(it - 1 - v.begin())]++;
    }
  }
  for (size_t i = 0; i < v.size(); i++) if (hits[i] != 1) sim_violation(hits[i] ? "visit_two_blocks" : "visit_freed", "mi_abandoned_visit_blocks: range [%p,+%zu) holds %d live blocks", (void*)v[i].start, v[i].size, hits[i]);
  // the statement assumes no pending cross-thread frees: a block of a terminated thread that another thread freed may still sit in the
  // abandoned page's thread-free list (it is counted in the area's `used`, which is taken before the walk collects it)
  { size_t slack = H.orphan_frees;
    for (auto& a : r.areas) {
      if (a.used == a.seen) continue;
      if (a.used > a.seen && a.used - a.seen <= slack) { slack -= a.used - a.seen; continue; }
      sim_violation("visit_used", "mi_abandoned_visit_blocks: area at %p reports used=%zu but %zu blocks were visited", (void*)a.blocks, a.used, a.seen);
    } }
  if (r.callbacks > 1) { VisitRec r3; r3.stop_after = (long)(op.a % (uint64_t)r.callbacks); mi_abandoned_visit_blocks(mi_subproc_main(), -1, true, &visitor_fn, &r3);
    if (r3.callbacks != r3.stop_after + 1) sim_violation("visit_stop", "mi_abandoned_visit_blocks: visitor returned false at callback %ld but received %ld callbacks", r3.stop_after + 1, r3.callbacks); }
  probe(PR_visit_checked);
}

// ---------------------------------------------------------------------------------
// free everything (by the calling thread)
// ---------------------------------------------------------------------------------
static void do_free_all(const Op& op) {
  (void)op;
  for (size_t s = 0; s < H.slots.size(); s++) {
    Block* b = H.slots[s]; if (!b) continue;
    H.slots[s] = nullptr; block_verify(b, "at free_all"); model_remove(b); H.frees++;
    sched_call_begin();
    mi_free(b->p); delete b;
  }
}

// ---------------------------------------------------------------------------------
// give-back (C11)
// ---------------------------------------------------------------------------------
struct ArenaArea { uint64_t start, size; };
static std::vector<ArenaArea> all_arena_areas() {
  std::vector<ArenaArea> v;
  for (int id = 1; id <= 132; id++) { size_t sz = 0; void* s = mi_arena_area(id, &sz); if (!s) break; v.push_back(ArenaArea{(uint64_t)(uintptr_t)s, sz}); }
  return v;
}
static bool in_arena(const std::vector<ArenaArea>& as, uint64_t a, uint64_t len) { for (auto& x : as) if (a >= x.start && a + len <= x.start + x.size) return true; return false; }

static void do_footprint_mark(const Op& op) {
  if (op.a == 0) collect_all_heaps(true);
  std::vector<ArenaArea> as = all_arena_areas();
  if (as.size() > 8) probe(PR_arenas_8plus);     // the reserve size doubles from the 9th arena on
  uint64_t mapped = 0, resident = 0;
  // parts of the segment map (8 KiB each, one per ~2 TiB of address space in which a segment was ever placed) are allocated
  // on first use and kept by design; their number is bounded by the address space, not by the history
  size_t segmap_parts = 0;
  for (auto& r : os_regions()) { if (r.donated) continue; if (r.len <= 8192) { segmap_parts++; continue; } mapped += r.len; if (!os_is_hugetlb(r.start)) resident += os_resident_bytes(r.start, r.len); }
  if (segmap_parts > 64) sim_violation("footprint_creep", "%zu mappings of at most 8 KiB exist (segment-map parts are bounded by the address space: at most 25 in the simulated window)", segmap_parts);
  H.fp_mapped.push_back(mapped); H.fp_resident.push_back(resident); H.fp_accessible.push_back(os_accessible_bytes());
  H.fp_work.push_back(H.work_hash); H.work_hash = 0;
  H.footprint_marks++;
}

static void do_giveback_check(const Op& op) {
  // op.a bit0: do not collect; bit1: skip the arena-commit rule (reset mode / purging off); bit2: skip monotonicity
  // (the other threads must be gone before the collect: one that ends in between leaves its metadata in the cache the collect just emptied)
  for (size_t k = 0; k < H.threads.size(); k++) if ((int)k != T->prog && H.threads[k].started && !H.threads[k].done) { H.ops_noop++; return; }
  if (!(op.a & 1)) collect_all_heaps(true);
  if (!H.live.empty()) { H.ops_noop++; return; }
  for (auto sp : H.subprocs) if (sp) { H.ops_noop++; return; }   // memory abandoned in another sub-process can only be released by a thread of that sub-process
  if (T->prog != 0) { H.ops_noop++; return; }                     // only the main thread's forced collect releases the thread-metadata cache
  std::vector<ArenaArea> as = all_arena_areas();
  probe(PR_giveback_checked);
  // (1) every region obtained directly from the OS for huge blocks / fallback segments has been unmapped again
  for (auto& r : os_regions()) {
    if (r.donated || in_arena(as, r.start, r.len)) continue;
    if (os_region_unmap_refused(r.start)) continue;
    // (mappings of at most 8 KiB are segment-map parts and arena descriptors, which stay by design; everything larger is a segment, a huge
    // block or the metadata of a thread, and all threads but this one are gone)
    if (r.len > 8192)
      sim_violation("os_region_leaked", "after everything was freed and mi_collect(true): mapping #%u [0x%llx,+0x%llx) created by thread %d op %d (mmap call #%llu) is still mapped and is not part of any arena", r.id, (unsigned long long)r.start, (unsigned long long)r.len, r.vt, r.op, (unsigned long long)r.call_no);
  }
  // (2) arena memory is no longer committed (unless purging is disabled / reset mode)
  const bool purge_faults = (g_os.refused[OS_MADV_DONTNEED] + g_os.refused[OS_MADV_FREE] + g_os.refused[OS_MPROTECT_NONE] + g_os.refused[OS_MPROTECT_RW] + g_os.refused[OS_MUNMAP]) > 0;
  if (!(op.a & 2) && !purge_faults && mi_option_get(mi_option_purge_delay) >= 0 && mi_option_get(mi_option_purge_decommits) != 0) {
    for (auto& a : as) {
      if (os_is_hugetlb(a.start)) continue;      // an arena of explicit huge OS pages is pinned: it cannot be decommitted
      uint64_t res = os_resident_bytes(a.start, a.size);
      if (res > 0) sim_violation("arena_still_committed", "after everything was freed and mi_collect(true): %llu bytes of arena [0x%llx,+0x%llx) are still resident (committed)", (unsigned long long)res, (unsigned long long)a.start, (unsigned long long)a.size);
    }
  }
  // (3) repetitions do not grow the footprint. With one thread the repetitions are identical, so any growth counts; with several
  // threads their interleaving differs from repetition to repetition (which thread's segments are abandoned or reclaimed when), so a
  // single step up (one more arena) is not creep: the footprint must then grow at least twice to be reported
  if (!(op.a & 4)) {
    const bool single = H.threads.size() <= 1 || sched_nthreads() <= 1;
    size_t steps_m = 0, steps_r = 0; size_t first_m = 0, first_r = 0;
    const bool purging = mi_option_get(mi_option_purge_delay) >= 0 && mi_option_get(mi_option_purge_decommits) != 0 && !(op.a & 2);
    for (size_t i = 2; i < H.fp_mapped.size(); i++) {
      if (H.fp_work[i] != H.fp_work[i - 1] || H.fp_work[i] != H.fp_work[0] || H.fp_work[i] == 0) continue;   // only between repetitions of the same workload
      if (H.fp_mapped[i] > H.fp_mapped[i - 1]) { if (!steps_m) first_m = i; steps_m++; }
      if (purging && H.fp_resident[i] > H.fp_resident[i - 1]) { if (!steps_r) first_r = i; steps_r++; }
    }
    // bit3 (arenas that are too small, c11_manyarenas): the reserve size doubles with every 8th arena, so the arena layout may need more than one
    // repetition to reach its fixed point; creep is then growth that goes on: at least three growing steps and the last step still grows
    const bool adapt = (op.a & 8) != 0;
    const size_t last = H.fp_mapped.size() - 1;
    if (adapt && !(H.fp_mapped.size() >= 2 && H.fp_mapped[last] > H.fp_mapped[last - 1]) && !(purging && H.fp_resident[last] > H.fp_resident[last - 1])) return;
    const size_t need = adapt ? 3 : single ? 1 : 2;
    if (steps_m >= need) { char seq[256]; size_t o = 0; for (size_t k = 0; k < H.fp_mapped.size() && o < sizeof seq - 24; k++) o += (size_t)snprintf(seq + o, sizeof seq - o, "%s%lluM", k ? "," : "", (unsigned long long)(H.fp_mapped[k] >> 20));
      sim_violation("footprint_creep", "mapped memory grows from repetition %zu to %zu: %llu -> %llu bytes, %zu growing step(s) (after each repetition: %s)", first_m, first_m + 1, (unsigned long long)H.fp_mapped[first_m - 1], (unsigned long long)H.fp_mapped[first_m], steps_m, seq); }
    if (steps_r >= need) sim_violation("footprint_creep", "resident memory grows from repetition %zu to %zu: %llu -> %llu bytes, %zu growing step(s)", first_r, first_r + 1, (unsigned long long)H.fp_resident[first_r - 1], (unsigned long long)H.fp_resident[first_r], steps_r);
  }
}

// ---------------------------------------------------------------------------------
// arena fill (C14): after everything was freed the arena can be allocated completely again
// ---------------------------------------------------------------------------------
static void do_arena_fill_check(const Op& op) {
  int as = op.slot;
  if (as < 0 || as >= (int)H.arenas.size() || H.arenas[as].id == 0) { H.ops_noop++; return; }
  for (auto& kv : H.live) { Block* b = kv.second; if (b->p >= H.arenas[as].start && b->p < H.arenas[as].start + H.arenas[as].size) { H.ops_noop++; return; } }
  const MArena& ar = H.arenas[as];
  if (mi_option_is_enabled(mi_option_disallow_arena_alloc)) { H.ops_noop++; return; }   // documented: nothing is allocated from arenas then
  if (ar.pinned) { H.ops_noop++; return; }   // arenas of large / huge OS pages are not used by secure builds or by threads that still commit lazily (src/segment.c:mi_segment_os_alloc)
  collect_all_heaps(true);
  mi_heap_t* h = mi_heap_new_in_arena(ar.id);
  if (!h) { H.ops_noop++; return; }
  const size_t nblocks = ar.size / (32u << 20);
  expect_errors(EB_ENOMEM);
  if (op.a == 0) {
    std::vector<void*> got;
    for (size_t i = 0; i < nblocks + 4; i++) { sched_call_begin(); void* p = mi_heap_malloc(h, 17u << 20); if (!p) break; got.push_back(p);
      if (!((uint8_t*)p >= ar.start && (uint8_t*)p + (17u << 20) <= ar.start + ar.size)) sim_violation("arena_escape", "arena-bound heap returned %p outside arena %d", p, ar.id); }
    if (got.size() != nblocks) sim_violation("arena_leak", "after everything was freed, %zu single-block objects fit into arena %d of %zu blocks (blocks stay reserved or are handed out twice)", got.size(), ar.id, nblocks);
    for (void* p : got) { sched_call_begin(); mi_free(p); }
  } else {
    size_t sz = ar.size - (8u << 20);   // a multiple of the 4 MiB allocation granularity that leaves room for the segment header
    void* p = mi_heap_malloc(h, sz);
    if (!p && g_cfg.trace) mi_arenas_print();
    if (!p) sim_violation("arena_leak", "after everything was freed, one object of %zu bytes does not fit into arena %d of %zu bytes", sz, ar.id, ar.size);
    if (!((uint8_t*)p >= ar.start && (uint8_t*)p + sz <= ar.start + ar.size)) sim_violation("arena_escape", "arena-bound heap returned %p outside arena %d", p, ar.id);
    mi_free(p);
  }
  mi_heap_delete(h);
  mi_collect(true);
}

// ---------------------------------------------------------------------------------
// producer/consumer footprint sample (C08c)
// ---------------------------------------------------------------------------------
static void do_pc_sample(const Op& op) {
  mi_heap_t* h = heap_ptr(T->deflt);
  if (!h) { H.ops_noop++; return; }
  VisitRec r; sched_set_passthrough(true); mi_heap_visit_blocks(h, false, &visitor_fn, &r); sched_set_passthrough(false);
  uint64_t pages = r.areas.size(), acc = os_accessible_bytes();
  H.pc_samples++;
  if (pages > H.pc_max_pages) H.pc_max_pages = pages;
  if (acc > H.pc_max_accessible) H.pc_max_accessible = acc;
  if (op.a != 0 && pages > op.a) sim_violation("blow_up", "producer heap holds %llu pages while at most %llu live blocks exist; a-priori bound is %llu pages", (unsigned long long)pages, (unsigned long long)op.b, (unsigned long long)op.a);
}

void run_oracle_op(const Op& op) {
  switch (op.code) {
    case OP_verify_all: verify_all_live("verify_all"); break;
    case OP_visit_heap: do_visit_heap(op); break;
    case OP_visit_abandoned: do_visit_abandoned(op); break;
    case OP_census: do_census(op); break;
    case OP_check_owner: { if (op.slot >= 0 && op.slot < (int)H.slots.size() && H.slots[op.slot]) { sched_set_passthrough(true); check_owner_of(H.slots[op.slot]); sched_set_passthrough(false); } else oracle_after_heap_op(); break; }
    case OP_free_all: do_free_all(op); break;
    case OP_expect_empty_heap: do_expect_heap_count(op); break;
    case OP_giveback_check: do_giveback_check(op); break;
    case OP_footprint_mark: do_footprint_mark(op); break;
    case OP_arena_fill_check: do_arena_fill_check(op); break;
    case OP_purge_check: oracle_purge_check(op); break;
    case OP_pc_sample: do_pc_sample(op); break;
    case OP_bad_request: oracle_bad_request(op); break;
    case OP_double_free: case OP_overflow_byte: case OP_corrupt_free_link: oracle_misuse_op(op); break;
    default: break;
  }
}
