// families.cc -- plan generators ("scenario families"), one or more per property (DESIGN.md section 7)
#include "plan.h"
#include <string.h>
#include <stdio.h>
#include <algorithm>

static const size_t KiB = 1024, MiB = 1024 * 1024;
static const size_t SMALL_MAX = 1024;            // MI_SMALL_SIZE_MAX
static const size_t SMALL_OBJ_MAX = 8 * KiB, MEDIUM_OBJ_MAX = 64 * KiB, LARGE_OBJ_MAX = 16 * MiB;

struct G {
  Rng r; Plan& p; std::string build; bool padded;
  G(Plan& pl, uint64_t seed, const std::string& b) : p(pl), build(b) { r.seed(seed); padded = (b != "REL"); }
  uint64_t below(uint64_t n) { return r.below(n); }
  bool chance(double x) { return r.chance(x); }
  template <class T> T pick(std::initializer_list<T> l) { auto it = l.begin(); std::advance(it, (long)r.below(l.size())); return *it; }
};

// block sizes of the size classes (bytes)
static std::vector<size_t> bin_sizes() {
  static std::vector<size_t> v;
  if (v.empty()) {
    for (size_t w = 1; w <= 8; w++) v.push_back(w * 8);
    for (size_t base = 8; base < 524288; base *= 2) for (size_t k = 1; k <= 4; k++) v.push_back((base + k * base / 4) * 8);
  }
  return v;
}

enum SizeMix { SM_SMALL = 1, SM_MEDIUM = 2, SM_LARGE = 4, SM_HUGE = 8, SM_ZERO = 16, SM_BOUNDARY = 32, SM_ALL = 63 };

static size_t gen_size(G& g, int mix) {
  for (int tries = 0; tries < 32; tries++) {
    int k = (int)g.below(100);
    if (k < 4 && (mix & SM_ZERO)) return 0;
    if (k < 30 && (mix & SM_BOUNDARY)) {
      auto bs = bin_sizes(); size_t b = bs[g.below(bs.size())];
      size_t pad = g.padded ? 8 : 0; long d = (long)g.below(3) - 1;
      size_t s = (size_t)((long)b - (long)pad + d);
      if ((long)b - (long)pad + d < 0) s = 0;
      if (s <= SMALL_OBJ_MAX && (mix & SM_SMALL)) return s;
      if (s > SMALL_OBJ_MAX && s <= MEDIUM_OBJ_MAX + 16 && (mix & SM_MEDIUM)) return s;
      if (s > MEDIUM_OBJ_MAX + 16 && s <= 2 * MiB && (mix & SM_LARGE)) return s;
      continue;
    }
    if (k < 65 && (mix & SM_SMALL)) { int c = (int)g.below(4); return c == 0 ? g.below(64) : c == 1 ? g.below(SMALL_MAX + 16) : c == 2 ? g.below(SMALL_OBJ_MAX + 64) : 1 + g.below(256); }
    if (k < 82 && (mix & SM_MEDIUM)) return SMALL_OBJ_MAX + g.below(MEDIUM_OBJ_MAX - SMALL_OBJ_MAX + 64);
    if (k < 94 && (mix & SM_LARGE)) { int c = (int)g.below(5); return c < 3 ? MEDIUM_OBJ_MAX + g.below(1 * MiB) : c == 3 ? 1 * MiB + g.below(7 * MiB) : LARGE_OBJ_MAX - 64 * KiB + g.below(128 * KiB); }
    if (mix & SM_HUGE) { int c = (int)g.below(4); return c < 2 ? LARGE_OBJ_MAX + g.below(20 * MiB) : c == 2 ? 33 * MiB + g.below(60 * MiB) : 64 * MiB + g.below(140 * MiB); }
  }
  return 1 + g.below(512);
}

static size_t gen_alignment(G& g, bool allow_huge) {
  int k = (int)g.below(100);
  if (k < 45) return (size_t)1 << g.below(8);           // 1..128
  if (k < 80) return (size_t)1 << (8 + g.below(9));     // 256..64K
  if (k < 93 || !allow_huge) return (size_t)1 << (17 + g.below(7));   // 128K..8M
  return (size_t)1 << (24 + g.below(5));                // 16M..256M
}

// ---------------------------------------------------------------------------------
// configuration sampling
// ---------------------------------------------------------------------------------
static const char* HOT_FUNCS[] = {
  "mi_free_block_delayed_mt", "_mi_page_thread_free_collect", "_mi_page_try_use_delayed_free", "_mi_heap_delayed_free_partial",
  "_mi_free_delayed_block", "mi_segment_reclaim", "_mi_arena_segment_clear_abandoned", "mi_arena_segment_clear_abandoned_at",
  "_mi_arena_segment_mark_abandoned", "mi_bitmap_try_find_claim_field_across", "_mi_bitmap_try_claim", "_mi_bitmap_try_find_claim_field",
  "_mi_bitmap_unclaim_across", "_mi_bitmap_claim_across", "_mi_bitmap_unclaim", "_mi_bitmap_claim", "mi_arena_try_purge", "mi_arena_purge",
  "mi_thread_data_zalloc", "mi_thread_data_free", "_mi_page_queue_append", "mi_free_block_mt", "_mi_segment_attempt_reclaim", "mi_free",
  "mi_arena_segment_os_clear_abandoned", "mi_arena_segment_os_mark_abandoned", "mi_arena_schedule_purge", "mi_arenas_try_purge",
  "_mi_segment_map_allocated_at", "_mi_segment_map_freed_at", "mi_segment_map_index_of", "mi_arena_segment_clear_abandoned_next_field",
  "os_call", "os_call",
};

static void sample_sched(G& g, SimConfig& c, bool multi) {
  c.stable_sched = 1;
  c.harness_p = g.pick({0.02, 0.1, 0.3, 0.6});
  c.spurious_p = g.pick({0.0, 0.0, 0.02, 0.15});
  c.tick_ns = g.pick<uint64_t>({0, 0, 100, 10000});
  if (!multi) { c.strategy = ST_NONE; c.harness_p = 0; return; }
  int k = (int)g.below(100);
  if (k < 35) { c.strategy = ST_RANDOM; c.switch_p = g.pick({0.002, 0.01, 0.05, 0.2, 0.5}); }
  else if (k < 62) { c.strategy = ST_PCT; c.pct_depth = 1 + (int)g.below(3); c.pct_horizon = g.pick<uint64_t>({300, 2000, 10000, 50000}); }
  else if (k < 95) {
    c.strategy = ST_TARGETED; c.hot_p = g.pick({0.15, 0.4, 0.8}); c.switch_p = g.pick({0.0, 0.0, 0.003}); c.hold_steps = g.pick<uint64_t>({0, 0, 0, 100, 1000, 10000});
    size_t n = sizeof(HOT_FUNCS) / sizeof(HOT_FUNCS[0]);
    size_t want = 1 + g.below(6);
    for (size_t i = 0; i < want; i++) c.hot_funcs.push_back(HOT_FUNCS[g.below(n)]);
    if (g.chance(0.5)) { c.hot_funcs.push_back("mi_free_block_delayed_mt"); c.hot_funcs.push_back("_mi_page_thread_free_collect"); }
  }
  else { c.strategy = ST_ROUNDROBIN; }
  // store-buffer mode: release / relaxed atomic stores may be overtaken by the storing thread's next few atomic loads
  if (g.chance(0.3)) c.sb_p = g.pick({0.2, 0.5, 1.0});
}

static void set_env(Plan& p, const char* name, const std::string& v) {
  std::string n = std::string("MIMALLOC_") + name;
  for (auto& kv : p.env) if (kv.first == n) { kv.second = v; return; }
  p.env.emplace_back(n, v);
}
static void set_env(Plan& p, const char* name, long v) { set_env(p, name, std::to_string(v)); }
static long get_env(const Plan& p, const char* name, long def) { std::string n = std::string("MIMALLOC_") + name; for (auto& kv : p.env) if (kv.first == n) return atol(kv.second.c_str()); return def; }

// level 0: defaults; 1: a few options varied; 2: the whole commit/purge/arena grid
static void sample_options(G& g, Plan& p, int level) {
  SimConfig& c = p.cfg;
  c.madv_free_mode = (int)g.below(3);
  c.overcommit = g.pick({0, 0, 1, 2});
  c.place_policy = g.pick({0, 0, 0, 1, 2, 3}); c.place_unaligned_p = g.pick({0.1, 0.5, 1.0});
  c.thp_einval = (int)g.below(2);
  c.entropy_fail = g.chance(0.05) ? 1 : 0;
  if (level <= 0) return;
  auto maybe = [&](double pr) { return g.chance(level >= 2 ? pr * 2.0 : pr); };
  if (maybe(0.25)) set_env(p, "PURGE_DELAY", g.pick({-1, 0, 0, 1, 10, 100}));
  if (maybe(0.15)) set_env(p, "PURGE_DECOMMITS", g.pick({0, 1}));
  if (maybe(0.10)) set_env(p, "PURGE_EXTEND_DELAY", g.pick({0, 1, 5}));
  if (maybe(0.10)) set_env(p, "ARENA_PURGE_MULT", g.pick({1, 10}));
  if (maybe(0.15)) set_env(p, "EAGER_COMMIT", g.pick({0, 1}));
  if (maybe(0.15)) set_env(p, "EAGER_COMMIT_DELAY", g.pick({0, 1, 4}));
  if (maybe(0.15)) set_env(p, "ARENA_EAGER_COMMIT", g.pick({0, 1, 2}));
  if (maybe(0.15)) set_env(p, "ARENA_RESERVE", g.pick({std::string("0"), std::string("64MiB"), std::string("65536KiB"), std::string("256MiB"), std::string("1GiB")}));
  if (maybe(0.12)) set_env(p, "DISALLOW_ARENA_ALLOC", g.pick({0, 1}));
  if (maybe(0.20)) set_env(p, "ABANDONED_RECLAIM_ON_FREE", g.pick({0, 1}));
  if (maybe(0.10)) set_env(p, "ABANDONED_PAGE_PURGE", g.pick({0, 1}));
  if (maybe(0.12)) set_env(p, "TARGET_SEGMENTS_PER_THREAD", g.pick({0, 2, 3, 4}));
  if (maybe(0.08)) set_env(p, "MAX_SEGMENT_RECLAIM", g.pick({0, 10, 100}));
  if (maybe(0.10)) set_env(p, "ALLOW_LARGE_OS_PAGES", g.pick({0, 1, 2}));
  if (maybe(0.08)) { c.hugetlb = g.pick({1, 2, 2}); if (g.chance(0.7)) set_env(p, "ALLOW_LARGE_OS_PAGES", 1); }       // explicit huge OS pages exist: pinned memory
  if (level >= 2 && maybe(0.04)) { c.hugetlb = 2; set_env(p, "RESERVE_HUGE_OS_PAGES", g.pick({1, 2})); }
  if (level >= 2 && maybe(0.04)) set_env(p, "RESERVE_OS_MEMORY", g.pick<std::string>({"131072", "262144"}));    // KiB: an arena reserved at start-up
  if (maybe(0.15)) set_env(p, "VISIT_ABANDONED", g.pick({0, 1}));
  if (maybe(0.05)) set_env(p, "GENERIC_COLLECT", g.pick({50, 500, 10000}));
}

// ---------------------------------------------------------------------------------
// op builders
// ---------------------------------------------------------------------------------
static Op mk(int code, int slot = -1, uint64_t a = 0, uint64_t b = 0, uint64_t c = 0, uint64_t d = 0) { Op o; o.code = code; o.slot = slot; o.a = a; o.b = b; o.c = c; o.d = d; return o; }
static Op mkh(int code, int hslot, int slot = -1, uint64_t a = 0, uint64_t b = 0) { Op o; o.code = code; o.hslot = hslot; o.slot = slot; o.a = a; o.b = b; return o; }

// a random allocating operation into `slot` with a size drawn from `mix`
static Op gen_alloc(G& g, int slot, int mix, int hslot_max, bool aligned_ok) {
  size_t sz = gen_size(g, mix);
  Op o; o.slot = slot; o.hslot = (hslot_max > 0 && g.chance(0.4)) ? (int)g.below((uint64_t)hslot_max) : -1;
  int k = (int)g.below(100);
  if (!aligned_ok && k >= 62) k = (int)g.below(62);
  if (k < 30) { o.code = OP_malloc; o.a = sz; }
  else if (k < 40) { o.code = OP_zalloc; o.a = sz; }
  else if (k < 47) { o.code = OP_calloc; size_t n = 1 + g.below(8); o.a = n; o.b = sz / n; }
  else if (k < 51) { o.code = OP_mallocn; size_t n = 1 + g.below(8); o.a = n; o.b = sz / n; }
  else if (k < 55) { o.code = g.chance(0.5) ? OP_malloc_small : OP_zalloc_small; o.a = sz % (SMALL_MAX + 1); if (o.code == OP_zalloc_small) o.hslot = -1; }
  else if (k < 58) { o.code = g.chance(0.5) ? OP_strdup : OP_strndup; o.a = sz % 3000; o.b = g.below(4000); }
  else if (k < 60) { o.code = OP_new_nothrow; o.a = sz; o.hslot = -1; }
  else if (k < 62) { o.code = OP_valloc + (int)g.below(2); o.a = sz; o.hslot = -1; }
  else {
    size_t al = gen_alignment(g, (mix & SM_HUGE) != 0);
    int v = (int)g.below(12);
    switch (v) {
      case 0: case 1: case 2: o.code = OP_malloc_aligned; o.a = sz; o.b = al; break;
      case 3: o.code = OP_zalloc_aligned; o.a = sz; o.b = al; break;
      case 4: { o.code = OP_calloc_aligned; size_t n = 1 + g.below(4); o.a = n; o.b = sz / n; o.c = al; break; }
      case 5: case 6: { o.code = OP_malloc_aligned_at; o.a = sz; o.b = al; break; }
      case 7: { o.code = OP_zalloc_aligned_at; o.a = sz; o.b = al; break; }
      case 8: { o.code = OP_posix_memalign; o.a = sz; o.b = al < 8 ? 8 : al; o.hslot = -1; break; }
      case 9: { o.code = OP_memalign; o.a = sz; o.b = al; o.hslot = -1; break; }
      case 10: { o.code = OP_aligned_alloc; o.a = sz; o.b = al; o.hslot = -1; break; }
      default: { o.code = OP_new_aligned_nothrow; o.a = sz; o.b = al; o.hslot = -1; break; }
    }
    if (o.code == OP_malloc_aligned_at || o.code == OP_zalloc_aligned_at) {
      // offsets: the debug build's own pointer check only accepts word aligned results
      size_t off = g.pick<size_t>({0, 8, 16, 24, 64, 4096, sz / 2 & ~(size_t)7, sz & ~(size_t)7});
      if (g.build != "DBG" && g.chance(0.4)) off = g.pick<size_t>({1, 3, 5, 12, 100, sz / 2, sz});
      if (al > 16 * MiB) off = 0;     // offset 0 only beyond half a segment
      if (off > 64 * KiB) off = 64 * KiB;
      o.c = off;
    }
  }
  return o;
}

static Op gen_realloc(G& g, int slot, int mix, int hslot_max, bool aligned_ok) {
  size_t sz = gen_size(g, mix);
  Op o; o.slot = slot; o.hslot = (hslot_max > 0 && g.chance(0.3)) ? (int)g.below((uint64_t)hslot_max) : -1;
  int k = (int)g.below(aligned_ok ? 100 : 70);
  if (k < 25) { o.code = OP_realloc; o.a = sz; }
  else if (k < 32) { o.code = OP_reallocn; size_t n = 1 + g.below(6); o.a = n; o.b = sz / n; }
  else if (k < 38) { o.code = OP_reallocf; o.a = sz; }
  else if (k < 48) { o.code = OP_rezalloc; o.a = sz; }
  else if (k < 54) { o.code = OP_recalloc; size_t n = 1 + g.below(6); o.a = n; o.b = sz / n; }
  else if (k < 59) { o.code = OP_reallocarray; size_t n = 1 + g.below(6); o.a = n; o.b = sz / n; o.hslot = -1; }
  else if (k < 62) { o.code = OP_reallocarr; size_t n = 1 + g.below(6); o.a = n; o.b = sz / n; o.hslot = -1; }
  else if (k < 70) { o.code = OP_expand; o.a = sz % (2 * KiB); o.hslot = -1; }
  else {
    size_t al = gen_alignment(g, false); if (al > 4 * MiB) al = 4 * MiB;
    int v = (int)g.below(6);
    if (v == 0) { o.code = OP_realloc_aligned; o.a = sz; o.b = al; }
    else if (v == 1) { o.code = OP_rezalloc_aligned; o.a = sz; o.b = al; }
    else if (v == 2) { o.code = OP_recalloc_aligned; size_t n = 1 + g.below(4); o.a = n; o.b = sz / n; o.c = al; }
    else if (v == 3) { o.code = OP_realloc_aligned_at; o.a = sz; o.b = al; o.c = g.pick<size_t>({0, 8, 16, 64}); }
    else if (v == 4) { o.code = OP_rezalloc_aligned_at; o.a = sz; o.b = al; o.c = g.pick<size_t>({0, 8, 16, 64}); }
    else { o.code = OP_recalloc_aligned_at; size_t n = 1 + g.below(4); o.a = n; o.b = sz / n; o.c = al; o.d = g.pick<size_t>({0, 8, 32}); }
  }
  return o;
}

static Op gen_free(G& g, int slot) {
  int k = (int)g.below(10);
  return mk(k < 6 ? OP_free : k == 6 ? OP_free_size : k == 7 ? OP_free_size_aligned : k == 8 ? OP_free_aligned : OP_cfree, slot);
}

// ---------------------------------------------------------------------------------
// C01: single-threaded histories
// ---------------------------------------------------------------------------------
static void plan_base(G& g, Plan& p, const char* prop, const char* fam, uint64_t seed, int opt_level, bool multi) {
  p.property = prop; p.family = fam; p.seed = seed; p.cfg.seed = seed;
  sample_sched(g, p.cfg, multi);
  sample_options(g, p, opt_level);
}

static void heap_ops_mix(G& g, Program& P, int nh, bool allow_ex = false) {
  int k = (int)g.below(10); int hs = (int)g.below((uint64_t)nh);
  if (k < 3 || (k < 4 && !allow_ex)) P.ops.push_back(mkh(OP_heap_new, hs));
  else if (k < 4) { Op o = mkh(OP_heap_new_ex, hs, -1, g.below(3), g.below(2)); P.ops.push_back(o); }
  else if (k < 6) P.ops.push_back(mkh(OP_heap_delete, hs));
  else if (k < 7) P.ops.push_back(mkh(OP_heap_destroy, hs));
  else if (k < 8) P.ops.push_back(mkh(OP_heap_set_default, g.chance(0.3) ? -1 : hs));
  else P.ops.push_back(mkh(OP_heap_collect, g.chance(0.5) ? -1 : hs, -1, g.below(2)));
}

static void fam_c01_random(G& g, Plan& p) {
  p.nslots = 40 + (int)g.below(260);
  p.progs.resize(1); Program& P = p.progs[0];
  int nops = 50 + (int)g.below(350);
  int mix = SM_SMALL | SM_BOUNDARY | SM_ZERO | (g.chance(0.7) ? SM_MEDIUM : 0) | (g.chance(0.5) ? SM_LARGE : 0) | (g.chance(0.25) ? SM_HUGE : 0);
  int nh = g.chance(0.5) ? 3 : 0;
  double p_free = g.pick({0.25, 0.4, 0.5});
  for (int i = 0; i < nops; i++) {
    int slot = (int)g.below((uint64_t)p.nslots);
    double x = (double)g.below(1000) / 1000.0;
    if (x < p_free) P.ops.push_back(gen_free(g, slot));
    else if (x < p_free + 0.12) P.ops.push_back(gen_realloc(g, slot, mix & ~SM_HUGE, nh, true));
    else if (x < p_free + 0.15 && nh) heap_ops_mix(g, P, nh);
    else if (x < p_free + 0.17) P.ops.push_back(mk(OP_collect, -1, g.below(2)));
    else if (x < p_free + 0.19) P.ops.push_back(mk(OP_advance, -1, g.pick<uint64_t>({0, 1, 9, 10, 11, 100, 3600000})));
    else if (x < p_free + 0.20) P.ops.push_back(mk(OP_verify_all));
    else if (g.chance(0.04)) {     // operator-new entry points (abort on failure: this family injects no faults and stays below the limits)
      size_t sz = gen_size(g, mix & ~SM_HUGE); int v = (int)g.below(7);
      if (v == 0) P.ops.push_back(mk(OP_new_plain, slot, sz));
      else if (v == 1) { size_t n = 1 + g.below(6); P.ops.push_back(mk(OP_new_n, slot, n, sz / n)); }
      else if (v == 2) P.ops.push_back(mk(OP_new_aligned, slot, sz, (size_t)1 << g.below(13)));
      else if (v == 3) { Op o = mk(OP_heap_alloc_new, slot, sz); o.hslot = nh ? (int)g.below((uint64_t)nh) : -1; P.ops.push_back(o); }
      else if (v == 4) { size_t n = 1 + g.below(6); Op o = mk(OP_heap_alloc_new_n, slot, n, sz / n); o.hslot = nh ? (int)g.below((uint64_t)nh) : -1; P.ops.push_back(o); }
      else if (v == 5) P.ops.push_back(mk(OP_new_realloc, slot, sz));
      else { size_t n = 1 + g.below(6); P.ops.push_back(mk(OP_new_reallocn, slot, n, sz / n)); }
    }
    else P.ops.push_back(gen_alloc(g, slot, mix, nh, true));
  }
}

// fill one size class until pages go full, free in some order, refill
static void fam_c01_pagecycle(G& g, Plan& p) {
  p.nslots = 600;
  p.progs.resize(1); Program& P = p.progs[0];
  auto bs = bin_sizes();
  int rounds = 1 + (int)g.below(3);
  for (int rd = 0; rd < rounds; rd++) {
    size_t b = bs[g.below(48)];                        // up to 8 KiB classes
    size_t req = b - (g.padded ? 8 : 0); if ((long)req < 0) req = 0;
    if (g.chance(0.3) && req > 1) req -= 1;
    size_t per_page = (64 * KiB) / b; if (per_page < 1) per_page = 1;
    size_t n = per_page * (1 + g.below(3)) + g.below(per_page); if (n > 580) n = 580;
    int zero = g.chance(0.2);
    const bool with_aligned = g.chance(0.5) && req >= 32;
    for (size_t i = 0; i < n; i++) {
      if (with_aligned && g.chance(0.08)) {   // an over-allocated block of the same class whose pointer lies inside it
        size_t al = (size_t)1 << (4 + g.below(4)); size_t off = 8 * (1 + g.below(3));
        size_t sz = req > al + 16 ? req - al - 8 : 8;
        P.ops.push_back(g.chance(0.5) ? mk(OP_malloc_aligned_at, (int)i, sz, al, off) : mk(OP_malloc_aligned, (int)i, sz, al * 2));
      }
      else P.ops.push_back(mk(zero ? OP_zalloc : OP_malloc, (int)i, req));
    }
    int order = (int)g.below(4); size_t stride = 2 + g.below(7);
    std::vector<int> idx; for (size_t i = 0; i < n; i++) idx.push_back((int)i);
    if (order == 1) std::reverse(idx.begin(), idx.end());
    else if (order == 2) { std::vector<int> t; for (size_t s0 = 0; s0 < stride; s0++) for (size_t i = s0; i < n; i += stride) t.push_back((int)i); idx = t; }
    else if (order == 3) { for (size_t i = n; i > 1; i--) std::swap(idx[i - 1], idx[g.below(i)]); }
    size_t nfree = g.chance(0.5) ? n : n - g.below(n / 2 + 1);
    for (size_t i = 0; i < nfree; i++) { P.ops.push_back(mk(OP_free, idx[i])); if (g.chance(0.02)) P.ops.push_back(mk(OP_collect, -1, g.below(2))); if (g.chance(0.01)) P.ops.push_back(mk(OP_advance, -1, 11)); }
    if (g.chance(0.5)) P.ops.push_back(mk(OP_collect, -1, g.below(2)));
    if (g.chance(0.5)) {   // another (usually smaller) size class takes over page slots that were just released, before the first class is used again
      size_t b2 = bs[g.below(40)]; size_t req2 = b2 > 8 && g.padded ? b2 - 8 : b2; int m2 = 1 + (int)g.below(40);
      for (int i = 0; i < m2; i++) P.ops.push_back(mk(OP_malloc, 580 + (i % 20), req2));
    }
    size_t refill = g.below(n + 1);
    for (size_t i = 0; i < refill; i++) P.ops.push_back(mk(OP_malloc, idx[i], req));
    P.ops.push_back(mk(OP_verify_all));
    if (g.chance(0.6)) P.ops.push_back(mk(OP_free_all));
  }
}


// page-granular choreography of one small size class: whole pages are filled, partly or completely freed (oldest / newest first),
// refilled, and another size class is allocated in between, so that pages walk through every queue position (first, full queue,
// re-appended, retired, released and re-used for another class) in many orders
static void fam_c01_pagequeue(G& g, Plan& p) {
  p.nslots = 3800; p.progs.resize(1); Program& P = p.progs[0];
  auto bs = bin_sizes();
  size_t b = bs[8 + g.below(33)]; if (b > 1024 && g.chance(0.85)) b = bs[8 + g.below(25)];      // mostly classes served by the small-block fast path
  size_t req = (g.padded && b > 8) ? b - 8 : b;
  size_t per_page = (64 * KiB) / b; if (per_page < 4) per_page = 4; if (per_page > 300) per_page = 300;
  size_t b2 = bs[4 + g.below(36)]; size_t req2 = (g.padded && b2 > 8) ? b2 - 8 : b2;
  const int hs = g.chance(0.25) ? 0 : -1; if (hs >= 0) P.ops.push_back(mkh(OP_heap_new, 0));
  std::vector<std::vector<int>> groups(1); int next_slot = 0; const int SPARE0 = 1100; int spare_n = 0;
  auto alloc_one = [&]() { if (next_slot >= 1090) return; if (groups.back().size() >= per_page) groups.emplace_back(); Op o = mk(OP_malloc, next_slot, req - g.below(2)); o.hslot = hs; P.ops.push_back(o); groups.back().push_back(next_slot++); };
  int steps = 12 + (int)g.below(40);
  const bool tight = g.chance(0.6);     // tight: a short dance of a few moves on whole pages, with page boundaries taken from the addresses at run time
  if (tight) {
    // class-1 blocks of the k-th fill live in slots [k*W, (k+1)*W); refs[k] = k*W is a block of the page that fill completed
    const int W = (int)per_page + 8; std::vector<int> refs; int nfill = 0;
    auto fill = [&]() { if ((nfill + 1) * W > 3600) return; Op o = mk(OP_fill_page, nfill * W, req - g.below(2), (uint64_t)W, (uint64_t)W); o.hslot = hs; P.ops.push_back(o); refs.push_back(nfill * W); nfill++; };
    int nfull = 1 + (int)g.below(2); for (int i = 0; i < nfull; i++) fill();
    steps = 6 + (int)g.below(8);
    for (int st = 0; st < steps; st++) {
      int mv = g.pick({0, 0, 0, 1, 1, 2, 2, 2, 3, 3, 3, 4, 4, 5});
      if (mv == 0) fill();                                                                                  // fill the page in use and open the next one
      else if (mv == 1) { int m = 1 + (int)g.below(2); for (int k = 0; k < m; k++) { Op o = mk(OP_malloc, 3600 + (int)g.below(90), req); o.hslot = hs; P.ops.push_back(o); } }   // take one or two
      else if (mv == 2) { if (refs.empty()) continue; size_t ri = g.chance(0.5) ? g.below(refs.size()) : refs.size() - 1; P.ops.push_back(mk(OP_free_page, refs[ri], 1, g.below(2), 1 + g.below(2))); }   // free one or two blocks of a page
      else if (mv == 3) { if (refs.empty()) continue; size_t ri = g.chance(0.5) ? g.below(refs.size()) : refs.size() - 1; P.ops.push_back(mk(OP_free_page, refs[ri], g.chance(0.7) ? 0 : 1, g.below(2), 0)); }   // free a page completely (or all but one)
      else if (mv == 4) { int m = 1 + (int)g.below(3); for (int k = 0; k < m; k++) { Op o = mk(OP_malloc, 3700 + (spare_n++ % 90), req2); o.hslot = hs; P.ops.push_back(o); } }   // the other class
      else { if (g.chance(0.5)) P.ops.push_back(mk(OP_free, 3700 + (int)g.below(90))); else P.ops.push_back(mk(OP_collect, -1, 0)); }
    }
    P.ops.push_back(mk(OP_verify_all));
    return;
  }
  for (int st = 0; st < steps; st++) {
    int a = (int)g.below(100);
    if (a < 40) {   // allocate
      int k = (int)g.below(5); size_t m = k == 0 ? 1 : k == 1 ? 2 : k == 2 ? per_page / 2 : k == 3 ? per_page : (per_page - groups.back().size() % per_page);
      if (m > 320) m = 320;
      for (size_t i = 0; i < m; i++) alloc_one();
    } else if (a < 78) {   // free part of one page-group
      if (groups.empty()) continue;
      size_t gi = g.chance(0.4) ? 0 : g.chance(0.5) ? groups.size() - 1 : g.below(groups.size());
      auto& grp = groups[gi]; if (grp.empty()) continue;
      int k = (int)g.below(6); size_t m = k == 0 ? 1 : k == 1 ? 2 : k == 2 ? grp.size() / 2 : k == 3 ? (grp.size() > 1 ? grp.size() - 1 : 1) : grp.size();
      for (size_t i = 0; i < m && !grp.empty(); i++) { size_t j = g.chance(0.5) ? grp.size() - 1 : g.below(grp.size()); P.ops.push_back(mk(OP_free, grp[j])); grp.erase(grp.begin() + (long)j); }
      if (grp.empty() && groups.size() > 1) groups.erase(groups.begin() + (long)gi);
    } else if (a < 92) {   // the other size class
      int m = 1 + (int)g.below(12);
      for (int i = 0; i < m; i++) { if (g.chance(0.7)) { Op o = mk(OP_malloc, SPARE0 + (spare_n++ % 90), req2); o.hslot = hs; P.ops.push_back(o); } else P.ops.push_back(mk(OP_free, SPARE0 + (int)g.below(90))); }
    } else if (a < 96) P.ops.push_back(mk(OP_collect, -1, g.below(2)));
    else P.ops.push_back(mk(OP_verify_all));
  }
  P.ops.push_back(mk(OP_verify_all));
}

// page edges: a page of tiny blocks is used up to its very last block while the slice right behind it holds a page whose first block
// starts at offset 0 (block size > 512), a large page or the end of the segment -- a page extent that is a few bytes off only shows there
static void fam_c01_pageedge(G& g, Plan& p) {
  p.nslots = 30000; p.progs.resize(1); Program& P = p.progs[0];
  auto bs = bin_sizes();
  const int hs = g.chance(0.2) ? 0 : -1; if (hs >= 0) P.ops.push_back(mkh(OP_heap_new, 0));
  int rounds = 1 + (int)g.below(3); int base = 0, spare = 29000;
  for (int r = 0; r < rounds; r++) {
    size_t b = g.chance(0.5) ? bs[g.below(4)] : bs[g.below(24)];                       // 8 .. 512
    size_t req = (g.padded && b > 8) ? b - 8 : b; if (req > 1 && g.chance(0.3)) req -= g.below(2);
    int W = (int)((64 * KiB) / b) + 16; if (base + W > 28000) break;
    { Op o = mk(OP_malloc, base, req); o.hslot = hs; P.ops.push_back(o); }                // a block in the page in use (usually opens one)
    int nb = g.pick({0, 1, 1, 2, 2, 3});
    for (int k = 0; k < nb; k++) {   // what lies behind it
      int c = (int)g.below(4); size_t sz = c == 0 ? bs[25 + g.below(12)] : c == 1 ? 8 * KiB + g.below(100 * KiB) : c == 2 ? 600 + g.below(15 * KiB) : 1 + g.below(512);
      int m = c == 0 ? 1 + (int)g.below((64 * KiB) / sz + 2) : 1 + (int)g.below(3);
      for (int i = 0; i < m && spare < 29990; i++) { Op o = mk(OP_malloc, spare++, sz); o.hslot = hs; P.ops.push_back(o); }
    }
    int nf = 1 + (int)g.below(2);
    for (int f = 0; f < nf; f++) { Op o = mk(OP_fill_page, base, req, (uint64_t)W, (uint64_t)W); o.hslot = hs; P.ops.push_back(o); }   // the 2nd fill continues into the next page
    if (g.chance(0.3)) P.ops.push_back(mk(OP_free_page, base, g.below(3), g.below(2), 0));
    if (g.chance(0.3)) { Op o = mk(OP_fill_page, base, req, (uint64_t)W, (uint64_t)W); o.hslot = hs; P.ops.push_back(o); }
    P.ops.push_back(mk(OP_verify_all));
    base += W;
  }
}

// mixes of small (1 slice), medium (8 slices) and large pages so that span split/coalesce sees every neighbour combination
static void fam_c01_spanchurn(G& g, Plan& p) {
  p.nslots = 120;
  p.progs.resize(1); Program& P = p.progs[0];
  int nops = 80 + (int)g.below(250);
  for (int i = 0; i < nops; i++) {
    int slot = (int)g.below((uint64_t)p.nslots);
    int k = (int)g.below(100);
    if (k < 40) P.ops.push_back(mk(OP_free, slot));
    else if (k < 44) P.ops.push_back(mk(OP_advance, -1, g.pick<uint64_t>({1, 10, 11, 50, 200})));
    else if (k < 47) P.ops.push_back(mk(OP_collect, -1, g.below(2)));
    else {
      int c = (int)g.below(6); size_t sz;
      if (c == 0) sz = 4 * KiB + g.below(4 * KiB);                      // small page, few blocks per page
      else if (c == 1) sz = 8 * KiB + 16 + g.below(56 * KiB);           // medium page
      else if (c == 2) sz = 64 * KiB + 16 + g.below(400 * KiB);         // large page, 2..8 slices
      else if (c == 3) sz = 512 * KiB + g.below(3 * MiB);
      else if (c == 4) sz = 4 * MiB + g.below(11 * MiB);
      else sz = 1 + g.below(2048);
      P.ops.push_back(mk(g.chance(0.15) ? OP_zalloc : OP_malloc, slot, sz));
    }
  }
}

static void fam_c01_huge(G& g, Plan& p) {
  p.nslots = 40;
  p.progs.resize(1); Program& P = p.progs[0];
  if (g.chance(0.15)) {
    // a big arena (its bitmaps have more than one 64-bit field): single-block segments fill it up to a field boundary, multi-block segments straddle
    // the boundary with live neighbours on both sides, are freed and their place is taken again
    p.nslots = 120; set_env(p, "ARENA_RESERVE", g.pick<std::string>({"4GiB", "3GiB", "4GiB"}));
    const int pre = 56 + (int)g.below(8);
    for (int i = 0; i < pre; i++) { Op o = mk(OP_malloc, i, 17 * MiB + g.below(12 * MiB)); o.flags = OPF_NO_FILL; P.ops.push_back(o); }
    int rounds = 2 + (int)g.below(4);
    for (int r = 0; r < rounds; r++) {
      int hs = 70 + r; size_t hb = 2 + g.below(9);
      { Op o = mk(OP_malloc, hs, hb * 32 * MiB - g.below(20 * MiB)); o.flags = OPF_NO_FILL; P.ops.push_back(o); }
      for (int i = 0; i < 2; i++) P.ops.push_back(mk(OP_malloc, 80 + 2 * r + i, 17 * MiB + g.below(12 * MiB)));                  // live neighbours behind it
      if (g.chance(0.5)) P.ops.push_back(mk(OP_free, (int)g.below((uint64_t)pre)));
      P.ops.push_back(mk(OP_free, hs));
      for (int i = 0; i < (int)hb + 2; i++) P.ops.push_back(mk(OP_malloc, 90 + (int)g.below(28), 17 * MiB + g.below(12 * MiB)));     // whatever the free gave back is handed out again
      P.ops.push_back(mk(OP_verify_all));
    }
    return;
  }
  int nops = 30 + (int)g.below(80); int nh = 2;
  for (int i = 0; i < nops; i++) {
    int slot = (int)g.below((uint64_t)p.nslots);
    int k = (int)g.below(100);
    if (k < 35) P.ops.push_back(gen_free(g, slot));
    else if (k < 55) { // huge
      size_t sz = gen_size(g, SM_HUGE);
      if (g.chance(0.4)) { size_t al = (size_t)1 << (22 + g.below(7)); Op o = mk(g.chance(0.3) ? OP_zalloc_aligned : OP_malloc_aligned, slot, g.chance(0.5) ? sz : 1 + g.below(200000), al); P.ops.push_back(o); }
      else { Op o = mk(g.chance(0.25) ? OP_zalloc : OP_malloc, slot, sz); o.hslot = g.chance(0.3) ? (int)g.below(2) : -1; P.ops.push_back(o); }
    }
    else if (k < 62) heap_ops_mix(g, P, nh);
    else if (k < 66) P.ops.push_back(mk(OP_collect, -1, g.below(2)));
    else if (k < 70) P.ops.push_back(mk(OP_advance, -1, g.pick<uint64_t>({1, 10, 11, 100})));
    else if (k < 76) { Op o = gen_realloc(g, slot, SM_LARGE | SM_HUGE | SM_SMALL, nh, false); P.ops.push_back(o); }
    else P.ops.push_back(gen_alloc(g, slot, SM_SMALL | SM_MEDIUM | SM_LARGE, nh, true));
  }
}

static void fam_c01_zerosize(G& g, Plan& p) {
  p.nslots = 300;
  p.progs.resize(1); Program& P = p.progs[0];
  int n = 50 + (int)g.below(240);
  for (int i = 0; i < n; i++) {
    int k = (int)g.below(8);
    Op o = mk(k == 0 ? OP_zalloc : k == 1 ? OP_calloc : k == 2 ? OP_malloc_small : k == 3 ? OP_malloc_aligned : k == 4 ? OP_mallocn : OP_malloc, i, 0);
    if (o.code == OP_calloc || o.code == OP_mallocn) { o.a = g.below(3); o.b = o.a ? 0 : g.below(100); }
    if (o.code == OP_malloc_aligned) o.b = (size_t)1 << g.below(8);
    P.ops.push_back(o);
    if (g.chance(0.2)) P.ops.push_back(mk(OP_free, (int)g.below((uint64_t)i + 1)));
    if (g.chance(0.1)) P.ops.push_back(mk(OP_realloc, (int)g.below((uint64_t)i + 1), g.chance(0.7) ? 0 : g.below(64)));
  }
}

// ---------------------------------------------------------------------------------
// C02: concurrent alloc + cross-thread free
// ---------------------------------------------------------------------------------
static void spawn_all(Plan& p, int nthreads, bool explicit_done_random, G& g) {
  for (int t = 1; t < nthreads; t++) { p.progs[0].ops.push_back(mk(OP_spawn, t)); if (explicit_done_random) p.progs[t].explicit_done = g.chance(0.5); }
}

static void fam_c02_pingpong(G& g, Plan& p) {
  int nt = 2 + (int)g.below(3);
  p.nslots = 20 + (int)g.below(180);
  p.progs.resize((size_t)nt);
  int ncls = 1 + (int)g.below(3);
  std::vector<size_t> cls; auto bs = bin_sizes();
  for (int i = 0; i < ncls; i++) { size_t b = bs[g.below(g.chance(0.8) ? 40 : 56)]; cls.push_back(b > 8 && g.padded ? b - 8 : b); }
  int warm = g.chance(0.5) ? (int)g.below(100) : 0;     // generic-path allocations first: shifts the phase of the "every 100 generic calls" drain
  spawn_all(p, nt, true, g);
  for (int t = 0; t < nt; t++) {
    Program& P = p.progs[(size_t)t];
    for (int i = 0; i < warm && t == 0; i++) { int s = p.nslots - 1 - (i % 5); P.ops.push_back(mk(OP_malloc, s, 9000 + g.below(30000))); P.ops.push_back(mk(OP_free, s)); }
    int nops = 30 + (int)g.below(120);
    for (int i = 0; i < nops; i++) {
      int slot = (int)g.below((uint64_t)p.nslots);
      int k = (int)g.below(100);
      if (k < 46) P.ops.push_back(mk(OP_free, slot));
      else if (k < 49) P.ops.push_back(mk(OP_collect, -1, g.below(2)));
      else if (k < 51) P.ops.push_back(mk(OP_realloc, slot, cls[g.below(cls.size())] + g.below(3) * 64));
      else P.ops.push_back(mk(g.chance(0.1) ? OP_zalloc : OP_malloc, slot, cls[g.below(cls.size())] - (g.chance(0.2) ? g.below(8) : 0)));
    }
  }
}


// the owner gives full pages away (mi_collect_reduce / target_segments_per_thread force-abandon whole segments) while other
// threads free blocks in exactly those pages: a block must end up on exactly one list of exactly one owner
static void fam_c02_forceabandon(G& g, Plan& p) {
  int nt = 2 + (int)g.below(3);
  const int shape = (int)g.below(10);       // 0-4: medium pages (few blocks each), 5-6: small pages, 7-9: one large block per page, one or two pages per segment
  const bool mid = shape < 5; const bool big = shape >= 7;
  size_t req; size_t per_page;
  if (big) { req = (size_t)(9 + g.below(7)) * MiB + g.below(MiB); per_page = 1; }
  else if (mid) { req = g.pick<size_t>({40000, 100000, 200000, 200000}) + g.below(5000); per_page = (512 * KiB) / (req + 64); if (per_page < 1) per_page = 1; }
  else { auto bs = bin_sizes(); size_t b = bs[24 + g.below(20)]; req = (g.padded && b > 8) ? b - 8 : b; per_page = (64 * KiB) / b; }
  int n = big ? 4 + (int)g.below(8) : (int)(per_page * (3 + g.below(12))); if (n > 400) n = 400; if (n < 12 && !big) n = 12;
  p.nslots = n + 40; p.progs.resize((size_t)nt);
  const bool has_target = g.chance(big ? 0.6 : 0.45);
  if (has_target) set_env(p, "TARGET_SEGMENTS_PER_THREAD", g.pick({2, 2, 3, 4}));      // (1 switches the mechanism off)
  if (g.chance(0.3)) set_env(p, "ABANDONED_RECLAIM_ON_FREE", g.pick({0, 1}));
  if (big && g.chance(0.5)) set_env(p, "ABANDONED_RECLAIM_ON_FREE", 1);       // a freer takes the segment over (and may free it) the moment the owner lets go of it
  if (g.chance(big ? 0.4 : 0.2)) set_env(p, "DISALLOW_ARENA_ALLOC", 1);
  if (g.chance(0.75)) {
    p.cfg.strategy = ST_TARGETED; p.cfg.hot_p = g.pick({0.3, 0.7}); p.cfg.switch_p = g.pick({0.0, 0.002}); p.cfg.hold_steps = g.pick<uint64_t>({0, 0, 100, 1000});
    p.cfg.hot_funcs = {"_mi_page_force_abandon", "mi_segment_force_abandon", "_mi_heap_delayed_free_all", "_mi_heap_delayed_free_partial", "mi_free_block_delayed_mt",
                       "_mi_page_use_delayed_free", "_mi_page_try_use_delayed_free", "_mi_free_delayed_block", "mi_free_block_mt"};
  }
  Program& P0 = p.progs[0];
  if (big && g.chance(0.4)) {
    // siblings: two pages per segment. One block of each pair is freed by a helper first (the page is full, so the free waits in the owner's
    // delayed list), then the owner gives segments away (forced abandonment processes that list: the page goes, its sibling is all that is
    // left and is abandoned with the segment) while another thread frees the siblings - with reclaim-on-free it takes each segment over and
    // releases it the moment it is abandoned
    set_env(p, "ABANDONED_RECLAIM_ON_FREE", 1); if (g.chance(0.7)) set_env(p, "DISALLOW_ARENA_ALLOC", 1);
    if (g.chance(0.8)) { p.cfg.strategy = ST_TARGETED; p.cfg.hot_p = g.pick({0.3, 0.7}); p.cfg.switch_p = 0.0; p.cfg.hold_steps = g.pick<uint64_t>({100, 1000, 5000});
      p.cfg.hot_funcs = {"_mi_page_force_abandon", "mi_segment_force_abandon", "_mi_heap_delayed_free_all", "_mi_heap_delayed_free_partial", "_mi_free_delayed_block", "mi_segment_abandon"}; }
    nt = 3; p.progs.resize(3); Program& Q0 = p.progs[0]; n = 2 * (2 + (int)g.below(4)); p.nslots = n + 40;
    for (int i = 0; i < n; i++) Q0.ops.push_back(mk(OP_malloc, i, req - g.below(16)));
    for (int i = 0; i < n; i++) if ((i % 2) == (int)g.below(2) || g.chance(0.2)) p.progs[1].ops.push_back(mk(OP_free, i)); else p.progs[2].ops.push_back(mk(OP_free, i));
    Q0.ops.push_back(mk(OP_spawn, 1)); Q0.ops.push_back(mk(OP_join, 1));
    Q0.ops.push_back(mk(OP_spawn, 2));
    // (mi_collect_reduce starts with a forced collect, which empties the delayed list first; the allocation path with a segment target does not)
    set_env(p, "TARGET_SEGMENTS_PER_THREAD", g.pick({2, 2, 3}));      // (a target of 1 switches the mechanism off)
    int rounds = 3 + (int)g.below(8);
    for (int i = 0; i < rounds; i++) { if (g.chance(0.25)) Q0.ops.push_back(mk(OP_collect_reduce, -1, g.pick<uint64_t>({0, 1, 32 * MiB, 64 * MiB}))); else Q0.ops.push_back(mk(OP_malloc, n + (int)g.below(40), req - g.below(16))); }
    Q0.ops.push_back(mk(OP_join, 2));
    Q0.ops.push_back(mk(OP_verify_all)); Q0.ops.push_back(mk(OP_census)); Q0.ops.push_back(mk(OP_free_all)); Q0.ops.push_back(mk(OP_giveback_check, -1, 4));
    return;
  }
  for (int i = 0; i < n; i++) P0.ops.push_back(mk(OP_malloc, i, req - g.below(16)));
  spawn_all(p, nt, true, g);
  int rounds = 6 + (int)g.below(30);
  for (int i = 0; i < rounds; i++) {
    int k = (int)g.below(10);
    // with a segment target the give-away happens on the allocation path (a fresh segment is needed while the target is reached), where - unlike
    // mi_collect_reduce, which collects first - remote frees are still pending in the delayed list
    if (has_target && g.chance(0.6)) k = g.pick({4, 5, 7, 7, 7, 8});
    if (k < 4) P0.ops.push_back(mk(OP_collect_reduce, -1, g.pick<uint64_t>({0, 1, 32 * MiB, 64 * MiB})));
    else if (k < 7) P0.ops.push_back(mk(OP_malloc, (int)g.below((uint64_t)p.nslots), req - g.below(16)));
    else if (k < 8) P0.ops.push_back(mk(OP_malloc, n + (int)g.below(40), (big ? 9 : 3) * MiB + g.below(8 * MiB)));     // asks for a fresh segment (try_abandon with a target)
    else if (k < 9) P0.ops.push_back(mk(OP_free, (int)g.below((uint64_t)p.nslots)));
    else P0.ops.push_back(mk(OP_check_owner, (int)g.below((uint64_t)n)));
  }
  // every thread but the owner frees (and a little re-allocates so that it can reclaim what the owner gave away)
  for (int i = 0; i < n; i++) { int t = 1 + (int)g.below((uint64_t)nt - 1); p.progs[(size_t)t].ops.push_back(mk(OP_free, i)); if (g.chance(0.05)) p.progs[(size_t)t].ops.push_back(mk(OP_malloc, n + (int)g.below(40), req)); }
  for (int t = 1; t < nt; t++) { auto& ops = p.progs[(size_t)t].ops; if (g.chance(0.5)) for (size_t i = ops.size(); i > 1; i--) std::swap(ops[i - 1], ops[g.below(i)]); }
  for (int t = 1; t < nt; t++) P0.ops.push_back(mk(OP_join, t));
  P0.ops.push_back(mk(OP_verify_all));
  P0.ops.push_back(mk(OP_census));
  P0.ops.push_back(mk(OP_free_all));
  P0.ops.push_back(mk(OP_giveback_check, -1, 4));
}

// owner loops malloc / heap_collect / collect(true) while remotes free into the same pages
static void fam_c02_ownercollect(G& g, Plan& p) {
  int nt = 2 + (int)g.below(3);
  auto bs = bin_sizes(); size_t b = bs[4 + g.below(36)]; size_t req = (g.padded && b > 8) ? b - 8 : b;
  size_t per_page = (64 * KiB) / b; if (per_page > 200) per_page = 200;
  int n = (int)(per_page + g.below(per_page + 1)); if (n > 300) n = 300; if (n < 8) n = 8;
  p.nslots = n + 40;
  p.progs.resize((size_t)nt);
  Program& P0 = p.progs[0];
  for (int i = 0; i < n; i++) P0.ops.push_back(mk(OP_malloc, i, req));
  spawn_all(p, nt, true, g);
  for (int i = 0; i < 40 + (int)g.below(100); i++) {
    int k = (int)g.below(10);
    if (k < 4) P0.ops.push_back(mk(OP_malloc, (int)g.below((uint64_t)p.nslots), req));
    else if (k < 6) P0.ops.push_back(mk(OP_heap_collect, -1, g.below(2)));
    else if (k < 7) P0.ops.push_back(mk(OP_collect, -1, 1));
    else if (k < 9) P0.ops.push_back(mk(OP_free, (int)g.below((uint64_t)p.nslots)));
    else P0.ops.push_back(mk(OP_malloc, n + (int)g.below(40), 9000 + g.below(20000)));   // generic path
  }
  for (int t = 1; t < nt; t++) {
    Program& P = p.progs[(size_t)t];
    int m = 10 + (int)g.below((uint64_t)n);
    for (int i = 0; i < m; i++) { P.ops.push_back(mk(OP_free, (int)g.below((uint64_t)n))); if (g.chance(0.1)) P.ops.push_back(mk(OP_malloc, (int)g.below((uint64_t)p.nslots), req)); }
  }
}

// several remotes free blocks of one page at the same time
static void fam_c02_manypushers(G& g, Plan& p) {
  int nt = 3 + (int)g.below(2);
  auto bs = bin_sizes(); size_t b = bs[6 + g.below(30)]; size_t req = (g.padded && b > 8) ? b - 8 : b;
  size_t per_page = (64 * KiB) / b; if (per_page > 120) per_page = 120; if (per_page < 4) per_page = 4;
  int n = (int)per_page * (1 + (int)g.below(2));
  p.nslots = n + 8;
  p.progs.resize((size_t)nt);
  Program& P0 = p.progs[0];
  for (int i = 0; i < n; i++) P0.ops.push_back(mk(OP_malloc, i, req));
  spawn_all(p, nt, true, g);
  if (g.chance(0.5)) { P0.ops.push_back(mk(OP_malloc, n, req)); P0.ops.push_back(mk(OP_malloc, n + 1, req)); }
  for (int i = 0; i < 10 + (int)g.below(30); i++) P0.ops.push_back(g.chance(0.5) ? mk(OP_malloc, (int)g.below((uint64_t)p.nslots), req) : mk(OP_heap_collect, -1, 0));
  // interleave the slots between the remotes so that they hit the same page concurrently
  for (int i = 0; i < n; i++) { int t = 1 + (i % (nt - 1)); p.progs[(size_t)t].ops.push_back(mk(OP_free, i)); }
  for (int t = 1; t < nt; t++) if (g.chance(0.5)) { auto& ops = p.progs[(size_t)t].ops; for (size_t i = ops.size(); i > 1; i--) std::swap(ops[i - 1], ops[g.below(i)]); }
}

// huge blocks freed by another thread
static void fam_c02_hugeremote(G& g, Plan& p) {
  int nt = 2 + (int)g.below(2);
  p.nslots = 16; p.progs.resize((size_t)nt);
  Program& P0 = p.progs[0];
  int n = 3 + (int)g.below(8);
  for (int i = 0; i < n; i++) {
    size_t sz = gen_size(g, SM_HUGE);
    if (g.chance(0.3)) P0.ops.push_back(mk(OP_malloc_aligned, i, 1 + g.below(2 * MiB), (size_t)1 << (25 + g.below(3))));
    else P0.ops.push_back(mk(g.chance(0.2) ? OP_zalloc : OP_malloc, i, sz));
  }
  spawn_all(p, nt, true, g);
  if (g.chance(0.7)) { p.cfg.strategy = ST_TARGETED; p.cfg.hot_p = g.pick({0.3, 0.7}); p.cfg.switch_p = 0.0; p.cfg.hot_funcs = {"os_call", "mi_free_block_mt", "mi_free_block_delayed_mt", "_mi_heap_delayed_free_partial"}; }
  for (int i = 0; i < n; i++) if (g.chance(0.6)) { P0.ops.push_back(mk(OP_collect, -1, g.below(2))); Op o = p.progs[0].ops[(size_t)i]; o.slot = 10 + (int)g.below(6); if (o.code == OP_malloc_aligned) o.code = OP_malloc; P0.ops.push_back(o); }
  for (int i = 0; i < 20; i++) { int k = (int)g.below(4); P0.ops.push_back(k == 0 ? mk(OP_collect, -1, g.below(2)) : k == 1 ? mk(OP_malloc, 10 + (int)g.below(6), gen_size(g, SM_SMALL | SM_LARGE)) : k == 2 ? mk(OP_free, (int)g.below(16)) : mk(OP_malloc, (int)g.below((uint64_t)n), gen_size(g, SM_HUGE))); }
  for (int t = 1; t < nt; t++) for (int i = 0; i < n; i++) if (g.chance(0.7)) p.progs[(size_t)t].ops.push_back(mk(OP_free, (int)g.below((uint64_t)n)));
}


// ---------------------------------------------------------------------------------
// C08: remotely freed memory is never lost
// ---------------------------------------------------------------------------------
static size_t class_req(G& g, size_t maxbin) { auto bs = bin_sizes(); size_t b = bs[g.below(maxbin)]; return (g.padded && b > 8) ? b - 8 : b; }

// owner allocates N blocks, remotes free them under an adversarial schedule while the owner keeps working; then the heap must be empty
static void fam_c08_drain(G& g, Plan& p) {
  int nt = 2 + (int)g.below(3);
  int ncls = 1 + (int)g.below(3); std::vector<size_t> cls; for (int i = 0; i < ncls; i++) cls.push_back(class_req(g, g.chance(0.8) ? 40 : 52));
  int n = 30 + (int)g.below(220);
  int extra = 30;
  p.nslots = n + extra; p.progs.resize((size_t)nt);
  Program& P0 = p.progs[0];
  int hs = g.chance(0.5) ? 0 : -1;           // non-default heap: "holds no live pages" is observable without the backing heap's own descriptors
  if (hs >= 0) P0.ops.push_back(mkh(OP_heap_new, 0));
  for (int i = 0; i < n; i++) { Op o = mk(g.chance(0.1) ? OP_zalloc : OP_malloc, i, cls[g.below(cls.size())]); o.hslot = hs; P0.ops.push_back(o); }
  spawn_all(p, nt, true, g);
  // owner activity while the remotes free
  int act = 10 + (int)g.below(120);
  for (int i = 0; i < act; i++) {
    int k = (int)g.below(10); int s = n + (int)g.below((uint64_t)extra);
    if (k < 4) { Op o = mk(OP_malloc, s, cls[g.below(cls.size())]); o.hslot = hs; P0.ops.push_back(o); }
    else if (k < 7) P0.ops.push_back(mk(OP_free, s));
    else if (k < 8) P0.ops.push_back(mkh(OP_heap_collect, hs, -1, g.below(2)));
    else if (k < 9) { Op o = mk(OP_malloc, s, 9000 + g.below(40000)); o.hslot = hs; P0.ops.push_back(o); }   // generic path
    else P0.ops.push_back(mk(OP_free, (int)g.below((uint64_t)n)));    // the owner frees some itself
  }
  // every slot 0..n-1 is freed by exactly one remote (or by the owner at the end)
  for (int i = 0; i < n; i++) { int t = 1 + (int)g.below((uint64_t)nt - 1); p.progs[(size_t)t].ops.push_back(mk(OP_free, i)); }
  for (int t = 1; t < nt; t++) { auto& ops = p.progs[(size_t)t].ops; if (g.chance(0.6)) for (size_t i = ops.size(); i > 1; i--) std::swap(ops[i - 1], ops[g.below(i)]); }
  for (int t = 1; t < nt; t++) P0.ops.push_back(mk(OP_join, t));
  int keep = (int)g.below(3);   // 0: free everything; else keep a few blocks live
  for (int i = 0; i < n + extra; i++) { if (keep && i >= n && g.chance(0.3)) continue; P0.ops.push_back(mk(OP_free, i)); }
  P0.ops.push_back(mkh(OP_expect_empty_heap, hs, -1, g.below(2)));
}

// long producer/consumer: bounded number of live blocks, memory must stay bounded
static void fam_c08_prodcons(G& g, Plan& p) {
  int L = 8 + (int)g.below(120);
  const bool ring = g.chance(0.7);
  const bool big = g.chance(0.5);       // few blocks per page and a long run: a page that is never reused shows as growth beyond the bound
  int ncls = 1 + (int)g.below(2); std::vector<size_t> cls;
  for (int i = 0; i < ncls; i++) { auto bs = bin_sizes(); size_t b = big ? bs[36 + g.below(8)] : bs[g.below(44)]; cls.push_back((g.padded && b > 8) ? b - 8 : b); }
  int R = big ? g.pick({20000, 60000}) : g.pick({500, 2000, 6000});
  // large only: a heap that serves nothing but blocks with a page of their own (above 128 KiB): every remote free goes through the owner's
  // delayed list, which has to be drained by the allocation path of exactly such requests
  const bool large_only = g.chance(0.15);
  if (large_only) { cls.clear(); cls.push_back(130 * KiB + g.below(400 * KiB)); R = g.pick({500, 1200}); if (L > 40) L = 8 + (int)g.below(32); }
  int ncons = 1 + (int)g.below(2);
  p.nslots = L; p.progs.resize((size_t)(1 + ncons));
  p.sample_verify = false;
  // Bound that follows from the design, independent of the length of the run: remotely freed blocks of a full page become
  // reusable when the owner processes its delayed-free list, which it does every 100th call of the generic allocation path
  // (src/page.c:_mi_malloc_generic); each such call adds at most one fresh page. A block whose page is mid-free in a parked
  // consumer is skipped for one more round (at most one page per consumer).
  uint64_t bound = 110 + 2 * (uint64_t)ncons;
  for (auto c : cls) { size_t per_page = (64 * KiB) / (c + 16); if (per_page < 1) per_page = 1; bound += ((uint64_t)L + (uint64_t)ncons + per_page - 1) / per_page + 4; }
  Program& P0 = p.progs[0];
  spawn_all(p, 1 + ncons, false, g);
  for (int r = 0; r < R; r++) {
    { Op o = mk(OP_malloc, r % L, cls[(size_t)r % cls.size()]); if (ring) o.flags |= OPF_WAIT; P0.ops.push_back(o); }
    if (r % 50 == 49) P0.ops.push_back(mk(OP_pc_sample, -1, bound, (uint64_t)L));
  }
  // ring: a bounded queue (the producer waits for an empty slot, a consumer for a filled one), so that every one of the R blocks
  // really is allocated by one thread and freed by another whatever the schedule; otherwise operations on a slot in the wrong state are skipped
  if (ring) for (int r = 0; r < R; r++) { Op o = mk(OP_free, r % L); o.flags |= OPF_WAIT; p.progs[(size_t)(1 + r % ncons)].ops.push_back(o); }
  else for (int c = 1; c <= ncons; c++) for (int r = 0; r < R; r++) p.progs[(size_t)c].ops.push_back(mk(OP_free, (r * ncons + c - 1) % L));
  for (int c = 1; c <= ncons; c++) P0.ops.push_back(mk(OP_join, c));
  P0.ops.push_back(mk(OP_pc_sample, -1, bound, (uint64_t)L));
  P0.ops.push_back(mk(OP_free_all));
  P0.ops.push_back(mkh(OP_expect_empty_heap, -1, -1, 1));
  p.cfg.max_run_steps = 200000000ull;
}

// "becomes reusable by the owning thread", step by step: a page gets its first remote free while it is still being filled, the owner processes
// it, fills the page and moves on to the next one; most blocks of the full page are then freed by another thread; after the owner's next
// (non-forced) collect the same number of allocations must fit into the two pages it has - a page that stays in the full queue shows as a third
static void fam_c08_reuse(G& g, Plan& p) {
  auto bs = bin_sizes(); size_t b = bs[16 + g.below(13)];          // 256 .. 2 KiB
  size_t req = g.padded ? b - 8 : b;
  const int cap_est = (int)((64 * KiB) / b) - 4;                   // a little less than the page really holds
  const int W = cap_est + 12, K = 14 + (int)g.below(4);
  p.nslots = W + 2 * cap_est + 80; p.progs.resize(3); p.sample_verify = false;
  Program& P0 = p.progs[0]; Program& T1 = p.progs[1]; Program& T2 = p.progs[2];
  const int a = 2 + (int)g.below((uint64_t)cap_est / 2);
  for (int i = 0; i < a; i++) P0.ops.push_back(mk(OP_malloc, i, req));
  const int early = 1 + (int)g.below(2);
  for (int i = 0; i < early; i++) T1.ops.push_back(mk(OP_free, (int)g.below((uint64_t)a)));          // remote free(s) while the page is still in its size queue
  P0.ops.push_back(mk(OP_spawn, 1)); P0.ops.push_back(mk(OP_join, 1));
  const bool via_collect = g.chance(0.6);
  P0.ops.push_back(via_collect ? mk(OP_collect, -1, 0) : mk(OP_malloc, W + 2 * cap_est + 70, 3 * MiB));   // the owner processes its delayed list (collect, or the generic path of a large allocation)
  P0.ops.push_back(mk(OP_fill_page, 0, req, (uint64_t)W, (uint64_t)W));                                  // fill the page to its end: the last block lands in the next page
  for (int i = 0; i < K; i++) P0.ops.push_back(mk(OP_malloc, W + i, req));                               // the next page is in use
  const int nfree = cap_est - 6;
  for (int i = 0; i < nfree; i++) T2.ops.push_back(mk(OP_free, i));                                       // all in the first page (slots are filled in address order)
  P0.ops.push_back(mk(OP_spawn, 2)); P0.ops.push_back(mk(OP_join, 2));
  P0.ops.push_back(mk(OP_collect, -1, 0));
  for (int i = 0; i < nfree - 2; i++) P0.ops.push_back(mk(OP_malloc, W + 20 + i, req));
  P0.ops.push_back(mk(OP_pc_sample, -1, 2 + (via_collect ? 0 : 1), (uint64_t)(cap_est + K + nfree)));    // (3 when the large block of step 3 holds a page of its own)
  P0.ops.push_back(mk(OP_verify_all));
}

// ---------------------------------------------------------------------------------
// C09: thread exit, abandonment, adoption
// ---------------------------------------------------------------------------------
static void c09_options(G& g, Plan& p) {
  if (g.chance(0.5)) set_env(p, "ABANDONED_RECLAIM_ON_FREE", g.pick({0, 1}));
  if (g.chance(0.3)) set_env(p, "TARGET_SEGMENTS_PER_THREAD", g.pick({0, 2, 4}));
  if (g.chance(0.2)) set_env(p, "MAX_SEGMENT_RECLAIM", g.pick({10, 100}));
  if (g.chance(0.2)) set_env(p, "ABANDONED_PAGE_PURGE", 1);
  if (g.chance(0.6)) set_env(p, "VISIT_ABANDONED", 1);
  int k = (int)g.below(10);
  if (k < 2) set_env(p, "DISALLOW_ARENA_ALLOC", 1);        // OS-allocated abandoned segments: the lock-protected list
  else if (k < 3) set_env(p, "ARENA_RESERVE", "0");
  else if (k < 4) set_env(p, "ARENA_RESERVE", "64MiB");
}

static void fam_c09_exit(G& g, Plan& p) {
  c09_options(g, p);
  int nt = 3 + (int)g.below(3);
  p.nslots = 30 + (int)g.below(150); p.progs.resize((size_t)nt);
  int mix = SM_SMALL | SM_BOUNDARY | (g.chance(0.6) ? SM_MEDIUM : 0) | (g.chance(0.4) ? SM_LARGE : 0) | (g.chance(0.1) ? SM_HUGE : 0);
  bool two_sub = g.chance(0.15);
  Program& P0 = p.progs[0];
  if (two_sub) P0.ops.push_back(mk(OP_subproc_new, 0));
  int late = g.chance(0.5) ? nt - 1 : 0;    // one thread is spawned late (possibly re-using the id of an exited thread) and adopts
  for (int t = 1; t < nt; t++) { if (t == late) continue; P0.ops.push_back(mk(OP_spawn, t)); }
  for (int t = 0; t < nt; t++) {
    Program& P = p.progs[(size_t)t];
    if (t > 0) { P.explicit_done = g.chance(0.5); P.reuse_id = g.chance(0.5); }
    if (two_sub && t > 0 && (t % 2) == 1) P.ops.push_back(mk(OP_subproc_add, 0));
    int nops = 20 + (int)g.below(100);
    const bool os_seg = (t > 0) && g.chance(0.25);      // this thread also leaves a segment that is not in any arena (alignment above 16 MiB): both kinds of abandoned memory at once
    for (int i = 0; i < nops; i++) {
      int slot = (int)g.below((uint64_t)p.nslots); int k = (int)g.below(100);
      if (os_seg && i == nops / 3) { P.ops.push_back(mk(OP_malloc_aligned, slot, 1000 + g.below(200000), (uint64_t)32 * MiB)); continue; }
      if (k < 38) P.ops.push_back(mk(OP_free, slot));
      else if (k < 42) P.ops.push_back(mk(OP_collect, -1, g.below(2)));
      else if (k < 44) P.ops.push_back(mk(OP_realloc, slot, gen_size(g, mix & ~SM_HUGE)));
      else if (k < 45 && t > 0) P.ops.push_back(mk(OP_thread_done));
      else if (k < 46) P.ops.push_back(mk(OP_collect_reduce, -1, g.pick<uint64_t>({0, 32 * MiB, 64 * MiB})));
      else if (k < 47) P.ops.push_back(mk(OP_check_owner, slot));
      else P.ops.push_back(mk(g.chance(0.1) ? OP_zalloc : OP_malloc, slot, gen_size(g, mix)));
      if (t == 0 && late && i == nops / 2) { P.ops.push_back(mk(OP_join, 1)); P.ops.push_back(mk(OP_spawn, late, 0, 1)); }
    }
  }
  for (int t = 1; t < nt; t++) P0.ops.push_back(mk(OP_join, t));
  P0.ops.push_back(mk(OP_verify_all));
  P0.ops.push_back(mk(OP_census));
  P0.ops.push_back(mk(OP_visit_abandoned, -1, g.below(1000)));
  P0.ops.push_back(mk(OP_free_all));
  P0.ops.push_back(mk(OP_giveback_check, -1, 4));
}


// a terminated thread's pages are adopted by the main thread (forced collect, or allocation of the same classes) at the same
// time as other threads free the blocks in them: no free may fall between "abandoned" and "owned again"
static void fam_c09_adopt_race(G& g, Plan& p) {
  if (g.chance(0.4)) set_env(p, "ABANDONED_RECLAIM_ON_FREE", g.pick({0, 1}));
  if (g.chance(0.3)) set_env(p, "VISIT_ABANDONED", 1);
  if (g.chance(0.15)) set_env(p, "DISALLOW_ARENA_ALLOC", 1);
  int nfreers = 1 + (int)g.below(3);
  // claim race: with reclaim-on-free several freers (and the collecting main thread) try to take over the same abandoned segment
  // at the same moment; the blocks spread over a few segments so that there are several such moments per run
  const bool claim_race = g.chance(0.3);
  if (claim_race) { set_env(p, "ABANDONED_RECLAIM_ON_FREE", 1); nfreers = 2 + (int)g.below(2); }
  int nt = 2 + nfreers;
  int ncls = 1 + (int)g.below(2); std::vector<size_t> cls; for (int i = 0; i < ncls; i++) cls.push_back(class_req(g, 40));
  if (claim_race && g.chance(0.7)) cls.push_back(40 * KiB + g.below(80 * KiB));
  int n = 20 + (int)g.below(200);
  int extra = 20 + (claim_race ? 12 * nfreers : 0);
  p.nslots = n + extra; p.progs.resize((size_t)nt);
  if (g.chance(0.7)) {
    p.cfg.strategy = ST_TARGETED; p.cfg.hot_p = g.pick({0.3, 0.7}); p.cfg.switch_p = g.pick({0.0, 0.002});
    p.cfg.hot_funcs = {"mi_segment_reclaim", "mi_free_block_delayed_mt", "_mi_page_try_use_delayed_free", "_mi_page_use_delayed_free", "_mi_page_reclaim", "mi_free_block_mt"};
    if (g.chance(0.4)) p.cfg.hot_funcs.push_back("_mi_page_thread_free_collect");
  }
  if (claim_race) {   // the hand-over points of a segment: the abandoned bit and the owner id
    p.cfg.strategy = ST_TARGETED; p.cfg.hot_p = g.pick({0.3, 0.6, 0.9}); p.cfg.switch_p = g.pick({0.0, 0.002}); p.cfg.hold_steps = g.pick({0, 40, 400});
    p.cfg.hot_funcs = {"_mi_bitmap_unclaim", "_mi_arena_segment_clear_abandoned", "_mi_arena_segment_mark_abandoned", "_mi_segment_attempt_reclaim", "mi_segment_reclaim"};
  }
  Program& P0 = p.progs[0];
  Program& PR = p.progs[1]; PR.explicit_done = g.chance(0.5);
  for (int i = 0; i < n; i++) PR.ops.push_back(mk(OP_malloc, i, cls[g.below(cls.size())]));
  P0.ops.push_back(mk(OP_spawn, 1)); P0.ops.push_back(mk(OP_join, 1));
  for (int t = 2; t < nt; t++) P0.ops.push_back(mk(OP_spawn, t));
  // adoption by the main thread while the freers run
  int act = 4 + (int)g.below(30);
  for (int i = 0; i < act; i++) {
    int k = (int)g.below(10); int sl = n + (int)g.below(20);
    if (k < 3) P0.ops.push_back(mk(OP_collect, -1, 1));
    else if (k < 7) P0.ops.push_back(mk(OP_malloc, sl, cls[g.below(cls.size())]));
    else if (k < 8) P0.ops.push_back(mk(OP_free, sl));
    else if (k < 9) P0.ops.push_back(mk(OP_check_owner, (int)g.below((uint64_t)n)));
    else P0.ops.push_back(mk(OP_malloc, sl, 3 * MiB + g.below(6 * MiB)));       // needs a fresh segment: tries to reclaim first
  }
  for (int i = 0; i < n; i++) {
    int t = 2 + (int)g.below((uint64_t)nfreers); p.progs[(size_t)t].ops.push_back(mk(OP_free, i));
    if (claim_race && g.chance(0.15)) p.progs[(size_t)t].ops.push_back(mk(OP_malloc, n + 20 + 12 * (t - 2) + (int)g.below(12), cls[g.below(cls.size())]));   // whoever took the segment over allocates from it
  }
  for (int t = 2; t < nt; t++) { auto& ops = p.progs[(size_t)t].ops; if (!claim_race && g.chance(0.5)) for (size_t i = ops.size(); i > 1; i--) std::swap(ops[i - 1], ops[g.below(i)]); p.progs[(size_t)t].explicit_done = g.chance(0.5); }
  for (int t = 2; t < nt; t++) P0.ops.push_back(mk(OP_join, t));
  P0.ops.push_back(mk(OP_collect, -1, 1));
  P0.ops.push_back(mk(OP_verify_all));
  P0.ops.push_back(mk(OP_census));
  for (int i = 0; i < n + extra; i++) P0.ops.push_back(mk(OP_free, i));
  P0.ops.push_back(mkh(OP_expect_empty_heap, -1, -1, 1));
  P0.ops.push_back(mk(OP_giveback_check, -1, 4));
}


// a thread's forced collect (or its exit) visits abandoned segments, purges their free spans and puts them back, while another
// thread reclaims exactly such a segment and allocates in those spans: the visit must be done with a segment before it is
// visible to others again
static void fam_c09_collect_race(G& g, Plan& p) {
  if (g.chance(0.3)) set_env(p, "PURGE_DELAY", g.pick({1, 10, 100}));
  if (g.chance(0.2)) set_env(p, "PURGE_DECOMMITS", 0);
  if (g.chance(0.2)) set_env(p, "ABANDONED_RECLAIM_ON_FREE", 1);
  if (g.chance(0.15)) set_env(p, "DISALLOW_ARENA_ALLOC", 1);
  const int nleave = 1 + (int)g.below(3);
  const int nt = 3 + nleave;          // 0 main, 1..nleave leavers, then collector, allocator
  const int XI = 1 + nleave, YI = 2 + nleave;
  p.nslots = 700; p.progs.resize((size_t)nt);
  const size_t pg = (g.pick<size_t>({200, 400, 400, 700})) * KiB;
  if (g.chance(0.85)) {
    int k = (int)g.below(4);
    if (k == 0) { p.cfg.strategy = ST_PCT; p.cfg.pct_depth = 1 + (int)g.below(3); p.cfg.pct_horizon = g.pick<uint64_t>({2000, 10000, 40000}); }
    else { p.cfg.strategy = ST_TARGETED; p.cfg.hot_p = g.pick({0.5, 0.9}); p.cfg.switch_p = 0.0; p.cfg.harness_p = g.pick({0.0, 0.02});
           p.cfg.hold_steps = g.pick<uint64_t>({0, 2000, 20000, 100000});     // the preempted thread stalls while the others run on
           p.cfg.hot_funcs = (k == 1) ? std::vector<std::string>{"_mi_arena_segment_mark_abandoned", "os_call"} : std::vector<std::string>{"_mi_arena_segment_mark_abandoned", "_mi_arena_segment_clear_abandoned", "mi_arena_segment_os_mark_abandoned", "mi_arena_segment_os_clear_abandoned", "os_call"}; }
  }
  Program& P0 = p.progs[0]; Program& X = p.progs[(size_t)XI]; Program& Y = p.progs[(size_t)YI];
  int holes = 0;
  for (int t = 1; t <= nleave; t++) {
    Program& L = p.progs[(size_t)t];
    int n = 16 + (int)g.below(40);
    for (int i = 0; i < n; i++) L.ops.push_back(mk(OP_malloc, (t - 1) * 60 + i, pg + g.below(64 * KiB)));
    for (int i = 0; i < n; i++) if ((i % 2) == (int)g.below(2) || g.chance(0.2)) { L.ops.push_back(mk(OP_free, (t - 1) * 60 + i)); holes++; }     // free spans with a pending purge between live pages
    L.explicit_done = g.chance(0.5);
    P0.ops.push_back(mk(OP_spawn, t));
  }
  for (int t = 1; t <= nleave; t++) P0.ops.push_back(mk(OP_join, t));
  if (g.chance(0.5)) P0.ops.push_back(mk(OP_advance, -1, g.pick<uint64_t>({1, 11, 101, 1001})));
  P0.ops.push_back(mk(OP_spawn, XI)); P0.ops.push_back(mk(OP_spawn, YI));
  int rounds = 3 + (int)g.below(8);
  for (int r = 0; r < rounds; r++) { X.ops.push_back(mk(OP_collect, -1, 1)); if (g.chance(0.5)) X.ops.push_back(mk(OP_malloc, 600 + r, 64 + g.below(4000))); if (g.chance(0.3)) X.ops.push_back(mk(OP_advance, -1, g.pick<uint64_t>({1, 11, 101}))); }
  X.explicit_done = g.chance(0.5);
  int m = 70 + holes + (int)g.below(30); if (m > 380) m = 380;      // fills the allocator thread's own segment, then the holes of the abandoned ones
  for (int i = 0; i < m; i++) { Y.ops.push_back(mk(OP_malloc, 200 + i, pg + g.below(64 * KiB))); if (g.chance(0.03)) Y.ops.push_back(mk(OP_free, 200 + (int)g.below((uint64_t)i + 1))); }
  Y.ops.push_back(mk(OP_verify_all));
  P0.ops.push_back(mk(OP_join, XI)); P0.ops.push_back(mk(OP_join, YI));
  P0.ops.push_back(mk(OP_verify_all));
  P0.ops.push_back(mk(OP_census));
  P0.ops.push_back(mk(OP_free_all));
  P0.ops.push_back(mk(OP_giveback_check, -1, 4));
}


// abandoned segments that were allocated directly from the OS live on a lock-protected list; reclaim-on-free unlinks one of them
// while other threads reclaim its neighbours, visit the list or append to it by exiting
static void fam_c09_oslist(G& g, Plan& p) {
  set_env(p, "DISALLOW_ARENA_ALLOC", 1);
  if (g.chance(0.8)) set_env(p, "ABANDONED_RECLAIM_ON_FREE", 1);
  if (g.chance(0.6)) set_env(p, "VISIT_ABANDONED", 1);
  if (g.chance(0.2)) set_env(p, "MAX_SEGMENT_RECLAIM", g.pick({10, 100}));
  const int nleave = 2 + (int)g.below(4);
  const int nfree = 2 + (int)g.below(2);
  const int nt = 1 + nleave + nfree + 1;       // main, leavers, freers, a late leaver
  p.nslots = 400; p.progs.resize((size_t)nt);
  if (g.chance(0.8)) {
    p.cfg.strategy = ST_TARGETED; p.cfg.hot_p = g.pick({0.4, 0.9}); p.cfg.switch_p = g.pick({0.0, 0.002}); p.cfg.hold_steps = g.pick<uint64_t>({0, 200, 3000});
    p.cfg.hot_funcs = {"mi_arena_segment_os_clear_abandoned", "mi_arena_segment_os_mark_abandoned", "mi_arena_segment_clear_abandoned_next_list", "_mi_arena_segment_clear_abandoned_next", "lock", "_mi_segment_attempt_reclaim"};
  }
  Program& P0 = p.progs[0];
  std::vector<size_t> cls; for (int i = 0; i < 3; i++) cls.push_back(class_req(g, 44));
  const int per = 6 + (int)g.below(12);
  for (int t = 1; t <= nleave; t++) {
    Program& L = p.progs[(size_t)t]; L.explicit_done = g.chance(0.5);
    for (int i = 0; i < per; i++) L.ops.push_back(mk(OP_malloc, (t - 1) * 20 + i, g.chance(0.85) ? cls[g.below(3)] : 200 * KiB + g.below(600 * KiB)));
    P0.ops.push_back(mk(OP_spawn, t));
  }
  for (int t = 1; t <= nleave; t++) P0.ops.push_back(mk(OP_join, t));
  // freers: each has a heap (one small allocation) and then frees blocks of the terminated threads, spread over all their segments
  for (int f = 0; f < nfree; f++) {
    int pi = 1 + nleave + f; Program& F = p.progs[(size_t)pi]; F.explicit_done = g.chance(0.5);
    F.ops.push_back(mk(OP_malloc, 300 + f, 64));
    int m = 6 + (int)g.below(20);
    for (int i = 0; i < m; i++) {
      int k = (int)g.below(10);
      if (k < 7) F.ops.push_back(mk(OP_free, (int)g.below((uint64_t)nleave) * 20 + (int)g.below((uint64_t)per)));
      else if (k < 8) F.ops.push_back(mk(OP_check_owner, (int)g.below((uint64_t)nleave) * 20 + (int)g.below((uint64_t)per)));
      else if (k < 9) F.ops.push_back(mk(OP_visit_abandoned, -1, g.below(1000)));
      else F.ops.push_back(mk(OP_malloc, 310 + f * 10 + (int)g.below(10), cls[g.below(3)]));
    }
    P0.ops.push_back(mk(OP_spawn, pi));
  }
  { int pi = nt - 1; Program& L = p.progs[(size_t)pi]; for (int i = 0; i < 8; i++) L.ops.push_back(mk(OP_malloc, 340 + i, cls[g.below(3)])); P0.ops.push_back(mk(OP_spawn, pi)); }   // appends to the list while the others work on it
  for (int i = 0; i < 6; i++) { if (g.chance(0.5)) P0.ops.push_back(mk(OP_free, (int)g.below((uint64_t)nleave) * 20 + (int)g.below((uint64_t)per))); else P0.ops.push_back(mk(OP_visit_abandoned, -1, g.below(1000))); }
  for (int t = 1 + nleave; t < nt; t++) P0.ops.push_back(mk(OP_join, t));
  P0.ops.push_back(mk(OP_verify_all));
  P0.ops.push_back(mk(OP_census));
  P0.ops.push_back(mk(OP_visit_abandoned, -1, g.below(1000)));
  P0.ops.push_back(mk(OP_free_all));
  P0.ops.push_back(mk(OP_giveback_check, -1, 4));
}

// several threads leave abandoned segments; a fresh thread allocates from user heaps until those reclaim; then deletes/destroys them
static void fam_c09_userheap_adopter(G& g, Plan& p) {
  if (g.chance(0.5)) set_env(p, "VISIT_ABANDONED", 1);
  if (g.chance(0.3)) set_env(p, "ABANDONED_RECLAIM_ON_FREE", 1);
  if (g.chance(0.3)) set_env(p, "MAX_SEGMENT_RECLAIM", 100);
  int nleave = 2 + (int)g.below(3);
  int nt = 1 + nleave + 1;
  int per = 2 + (int)g.below(6);
  const bool crowded = g.chance(0.4);
  p.nslots = nleave * per + 60 + nleave * 27; p.progs.resize((size_t)nt);
  Program& P0 = p.progs[0];
  for (int t = 1; t <= nleave; t++) P0.ops.push_back(mk(OP_spawn, t));
  for (int t = 1; t <= nleave; t++) {
    Program& P = p.progs[(size_t)t]; P.explicit_done = g.chance(0.5);
    for (int i = 0; i < per; i++) P.ops.push_back(mk(OP_malloc, (t - 1) * per + i, g.chance(0.7) ? 500 + g.below(2000) : gen_size(g, SM_SMALL | SM_MEDIUM)));
    if (crowded) for (int i = 0; i < 27; i++) P.ops.push_back(mk(OP_malloc, p.nslots - 1 - ((t - 1) * 27 + i), 1 * MiB + g.below(64 * KiB)));   // the segment has no room left for a large page: a visit uses up a try without adopting it
    P.ops.push_back(mk(OP_barrier, 1, (uint64_t)nleave));     // several distinct abandoned segments exist at the same time
  }
  for (int t = 1; t <= nleave; t++) P0.ops.push_back(mk(OP_join, t));
  int ad = nleave + 1;
  P0.ops.push_back(mk(OP_spawn, ad));
  Program& A = p.progs[(size_t)ad];
  int base = nleave * per;
  int kind = (int)g.below(3);
  if (kind == 0) A.ops.push_back(mkh(OP_heap_new, 0));
  else if (kind == 1) { Op o = mkh(OP_heap_new_ex, 0, -1, 0, g.below(2)); A.ops.push_back(o); }
  else A.ops.push_back(mkh(OP_heap_new, 0));
  int nbig = 3 + (int)g.below(6);
  for (int i = 0; i < nbig; i++) { Op o = mk(OP_malloc, base + i, (g.chance(0.7) ? 8 : 3) * MiB + g.below(2 * MiB)); o.hslot = 0; A.ops.push_back(o); A.ops.push_back(mk(OP_check_owner, (int)g.below((uint64_t)base))); }
  for (int i = 0; i < 10; i++) { Op o = mk(OP_malloc, base + 20 + i, 500 + g.below(2000)); o.hslot = 0; A.ops.push_back(o); }
  A.ops.push_back(mkh(OP_visit_heap, 0, -1, g.below(100)));
  for (int i = 0; i < base; i++) if (g.chance(0.3)) A.ops.push_back(mk(OP_check_owner, i));
  A.ops.push_back(mkh(g.chance(0.6) ? OP_heap_destroy : OP_heap_delete, 0));
  A.ops.push_back(mk(OP_verify_all));
  for (int i = 0; i < 20; i++) A.ops.push_back(mk(OP_malloc, base + 30 + i, 500 + g.below(2000)));   // would re-issue the addresses of wrongly freed blocks
  A.ops.push_back(mk(OP_verify_all));
  P0.ops.push_back(mk(OP_join, ad));
  P0.ops.push_back(mk(OP_verify_all));
  P0.ops.push_back(mk(OP_census));
  P0.ops.push_back(mk(OP_free_all));
  P0.ops.push_back(mk(OP_giveback_check, -1, 4));
}

// ---------------------------------------------------------------------------------
// C10: first-class heaps
// ---------------------------------------------------------------------------------
static void fam_c10_single(G& g, Plan& p) {
  p.nslots = 60 + (int)g.below(120); p.progs.resize(1); Program& P = p.progs[0];
  int nh = 4; int nops = 60 + (int)g.below(250);
  int mix = SM_SMALL | SM_BOUNDARY | (g.chance(0.5) ? SM_MEDIUM : 0) | (g.chance(0.3) ? SM_LARGE : 0) | (g.chance(0.1) ? SM_HUGE : 0);
  bool ex = g.chance(0.25);
  for (int i = 0; i < nops; i++) {
    int slot = (int)g.below((uint64_t)p.nslots); int k = (int)g.below(100);
    if (k < 22) heap_ops_mix(g, P, nh, ex);
    else if (k < 45) P.ops.push_back(gen_free(g, slot));
    else if (k < 52) P.ops.push_back(gen_realloc(g, slot, mix & ~SM_HUGE, nh, false));
    else if (k < 58) P.ops.push_back(mk(OP_check_owner, slot));
    else if (k < 61) P.ops.push_back(mkh(OP_visit_heap, g.chance(0.3) ? -1 : (int)g.below((uint64_t)nh), -1, g.below(100)));
    else { Op o = gen_alloc(g, slot, mix, nh, true); if (g.chance(0.5)) o.hslot = (int)g.below((uint64_t)nh); P.ops.push_back(o); }
  }
  P.ops.push_back(mk(OP_verify_all));
}

// remotes free blocks of heap H while the owner deletes / collects / destroys heaps or exits
static void fam_c10_concurrent(G& g, Plan& p) {
  int nt = 2 + (int)g.below(4);
  if (g.chance(0.6)) {   // aim at the window between a remote's DELAYED_FREEING CAS and its push while the owner deletes the heap
    p.cfg.strategy = ST_TARGETED; p.cfg.hot_p = g.pick({0.3, 0.6, 0.9}); p.cfg.switch_p = g.pick({0.0, 0.002});
    p.cfg.hold_steps = g.pick<uint64_t>({0, 60, 600, 600});      // a freer stalled inside its window while the owner polls (and yields) again and again
    p.cfg.hot_funcs = {"mi_free_block_delayed_mt", "_mi_page_try_use_delayed_free", "_mi_page_use_delayed_free", "_mi_page_queue_append", "_mi_heap_delayed_free_partial"};
    if (nt < 3) nt = 3 + (int)g.below(3);
  }
  size_t req = class_req(g, 40);
  size_t per_page = (64 * KiB) / (req + 16); if (per_page > 150) per_page = 150; if (per_page < 2) per_page = 2;
  int n = (int)per_page * (1 + (int)g.below(2)) + (int)g.below(per_page);
  p.nslots = n + 40; p.progs.resize((size_t)nt);
  Program& P0 = p.progs[0];
  // bound: the deleted heap is tied to an arena, so the backing heap cannot absorb its pages and mi_heap_delete abandons them instead
  // (the thread-exit protocol, run against remote frees while the thread lives on)
  const bool bound = g.chance(0.35);
  if (bound) { P0.ops.push_back(mk(OP_reserve_arena, 0, (64 + 32 * g.below(2)) * MiB, g.below(2), g.below(2))); P0.ops.push_back(mkh(OP_heap_new_in_arena, 0, 0)); if (g.chance(0.5)) set_env(p, "ABANDONED_RECLAIM_ON_FREE", g.pick({0, 1})); set_env(p, "DISALLOW_ARENA_ALLOC", 0); }
  else P0.ops.push_back(mkh(OP_heap_new, 0));
  if (g.chance(0.5)) p.cfg.sb_p = g.pick({0.5, 1.0});      // the owner's hand-over of the pages (new heap stored, flag read) against the freers' flag/heap accesses with store buffering
  P0.ops.push_back(mkh(OP_heap_new, 1));
  for (int i = 0; i < n; i++) { Op o = mk(OP_malloc, i, req); o.hslot = 0; P0.ops.push_back(o); }
  for (int i = 0; i < 6; i++) { Op o = mk(OP_malloc, n + i, req); o.hslot = 1; P0.ops.push_back(o); }
  spawn_all(p, nt, true, g);
  for (int i = 0; i < n; i++) { int t = 1 + (int)g.below((uint64_t)nt - 1); if (g.chance(0.85)) p.progs[(size_t)t].ops.push_back(mk(OP_free, i)); }
  int what = (int)g.below(4);
  for (int i = 0; i < (int)g.below(6); i++) { Op o = mk(OP_malloc, n + 10 + i, req); o.hslot = 0; P0.ops.push_back(o); }
  if (what == 0) P0.ops.push_back(mkh(OP_heap_delete, 0));
  else if (what == 1) { P0.ops.push_back(mkh(OP_heap_collect, 0, -1, g.below(2))); P0.ops.push_back(mkh(OP_heap_delete, 0)); }
  else if (what == 2) { P0.ops.push_back(mkh(OP_heap_destroy, 1)); P0.ops.push_back(mkh(OP_heap_delete, 0)); }
  else { P0.ops.push_back(mkh(OP_heap_set_default, 0)); P0.ops.push_back(mkh(OP_heap_delete, 0)); }
  // right after the delete: blocks of sizeof(mi_heap_t)'s size class; a late push into the freed heap descriptor shows as a pattern mismatch
  for (int i = 0; i < 8; i++) P0.ops.push_back(mk(OP_malloc, n + 20 + i, 2800 + g.below(600)));
  for (int i = 0; i < 6; i++) P0.ops.push_back(mk(OP_check_owner, (int)g.below((uint64_t)n)));
  for (int t = 1; t < nt; t++) P0.ops.push_back(mk(OP_join, t));
  P0.ops.push_back(mk(OP_verify_all));
  P0.ops.push_back(mk(OP_free_all));
  P0.ops.push_back(mkh(OP_expect_empty_heap, -1, -1, 1));
  if (bound) { p.cfg.madv_free_mode = 1; if (what != 2) P0.ops.push_back(mkh(OP_heap_delete, 1)); P0.ops.push_back(mk(OP_giveback_check, -1, 4)); }      // a free that got lost in the abandoned pages keeps its segment
}

// ---------------------------------------------------------------------------------
// C11: freed memory is given back
// ---------------------------------------------------------------------------------
static void fam_c11_repeat(G& g, Plan& p) {
  int k = (int)g.below(10);
  if (k < 3) set_env(p, "DISALLOW_ARENA_ALLOC", 1);
  else if (k < 5) set_env(p, "ARENA_RESERVE", "64MiB");
  if (g.chance(0.3)) set_env(p, "ARENA_EAGER_COMMIT", g.pick({0, 1}));
  int purge = (int)g.below(10);   // 0..6 decommit (default), 7..8 reset, 9 off
  if (purge >= 9) set_env(p, "PURGE_DELAY", -1); else if (purge >= 7) set_env(p, "PURGE_DECOMMITS", 0);
  if (g.chance(0.3)) set_env(p, "PURGE_DELAY", g.pick({0, 1, 10}));
  p.cfg.madv_free_mode = 1;     // every discard is carried out eagerly so that residency is exact
  int W = (int)g.below(6);      // small, large, huge, aligned-huge, mixed, multi-threaded with thread exit
  int N = 3 + (int)g.below(6);
  int nthreads_per_rep = (W == 5) ? 1 + (int)g.below(3) : 0;
  const bool sequential = (W == 5) && g.chance(0.5); if (sequential) nthreads_per_rep = 2 + (int)g.below(3);
  const bool crowd = (W == 5) && !sequential && g.chance(0.3); if (crowd) nthreads_per_rep = 33 + (int)g.below(8);     // more threads alive at once, and then ending, than the metadata cache has slots (32)
  if (crowd && N > 4) N = 4;
  p.progs.resize((size_t)(1 + N * nthreads_per_rep));
  p.nslots = 200 + 20 * nthreads_per_rep;
  Program& P0 = p.progs[0];
  Rng shape; shape.seed(g.r.next());   // the same workload in every repetition
  for (int rep = 0; rep < N; rep++) {
    Rng r2 = shape; G g2(p, 0, g.build); g2.r = r2; g2.padded = g.padded;
    int n = 20 + (int)g2.below(120);
    for (int i = 0; i < n; i++) {
      size_t sz;
      switch (W) {
        case 0: sz = gen_size(g2, SM_SMALL | SM_BOUNDARY); break;
        case 1: sz = gen_size(g2, SM_LARGE | SM_MEDIUM); break;
        case 2: sz = (i < 6) ? gen_size(g2, SM_HUGE) : gen_size(g2, SM_SMALL); break;
        case 3: sz = (i < 5) ? 1 + g2.below(3 * MiB) : gen_size(g2, SM_SMALL); break;
        default: sz = gen_size(g2, SM_SMALL | SM_MEDIUM | SM_LARGE | (i < 3 ? SM_HUGE : 0)); break;
      }
      Op o = mk(OP_malloc, i, sz);
      if (W == 3 && i < 5) { o.code = OP_malloc_aligned; o.b = (size_t)1 << (25 + g2.below(3)); }
      else if (g2.chance(0.1)) o.code = OP_zalloc;
      P0.ops.push_back(o);
    }
    for (int t = 0; t < nthreads_per_rep; t++) {
      int pi = 1 + rep * nthreads_per_rep + t;
      Program& P = p.progs[(size_t)pi]; P.explicit_done = (t % 2) == 0;
      int m = crowd ? 1 + (int)g2.below(5) : 10 + (int)g2.below(60);
      for (int i = 0; i < m; i++) { int s = 130 + t * 20 + (int)g2.below(20); P.ops.push_back(g2.chance(0.55) ? mk(OP_malloc, s, gen_size(g2, SM_SMALL | SM_MEDIUM | SM_LARGE)) : mk(OP_free, g2.chance(0.3) ? (int)g2.below(120) : s)); }
      P0.ops.push_back(mk(OP_spawn, pi));
      if (sequential) P0.ops.push_back(mk(OP_join, pi));      // one after the other: a later thread re-uses what an earlier one left (thread metadata, abandoned segments)
    }
    if (!sequential) for (int t = 0; t < nthreads_per_rep; t++) P0.ops.push_back(mk(OP_join, 1 + rep * nthreads_per_rep + t));
    P0.ops.push_back(mk(OP_verify_all));
    P0.ops.push_back(mk(OP_free_all));
    P0.ops.push_back(mk(OP_footprint_mark));
  }
  uint64_t fl = 0;
  if (purge >= 7) fl |= 2;
  P0.ops.push_back(mk(OP_giveback_check, -1, fl));
}



// arenas that are too small: with a 64 MiB reserve every huge block takes a whole arena, so a dozen of them live at once make the
// allocator reserve more than 8 arenas (from where on the reserve size doubles); each repetition must find its memory in the arenas
// that exist and all of it must be decommitted at the end
static void fam_c11_manyarenas(G& g, Plan& p) {
  set_env(p, "ARENA_RESERVE", g.pick<std::string>({"64MiB", "64MiB", "96MiB", "32MiB"}));
  if (g.chance(0.3)) set_env(p, "ARENA_EAGER_COMMIT", g.pick({0, 1}));
  int purge = (int)g.below(10);   // 0..6 decommit (default), 7..8 reset, 9 off
  if (purge >= 9) set_env(p, "PURGE_DELAY", -1); else if (purge >= 7) set_env(p, "PURGE_DECOMMITS", 0);
  if (g.chance(0.3)) set_env(p, "PURGE_DELAY", g.pick({0, 1, 10}));
  p.cfg.madv_free_mode = 1;
  p.progs.resize(1); p.nslots = 80; Program& P0 = p.progs[0];
  const int N = 6 + (int)g.below(2);
  Rng shape; shape.seed(g.r.next());
  for (int rep = 0; rep < N; rep++) {
    Rng r2 = shape; G g2(p, 0, g.build); g2.r = r2; g2.padded = g.padded;
    int nh = 9 + (int)g2.below(9);
    for (int i = 0; i < nh; i++) { Op o = mk(OP_malloc, i, 33 * MiB + g2.below(28 * MiB)); if (g2.chance(0.3)) o.a = 17 * MiB + g2.below(14 * MiB); P0.ops.push_back(o);
      if (g2.chance(0.3)) P0.ops.push_back(mk(OP_malloc, 30 + (int)g2.below(40), gen_size(g2, SM_SMALL | SM_MEDIUM | SM_LARGE)));
      if (g2.chance(0.15)) P0.ops.push_back(mk(OP_free, (int)g2.below((uint64_t)i + 1)));
      if (g2.chance(0.1)) P0.ops.push_back(mk(OP_advance, -1, g2.pick<uint64_t>({10, 50, 120, 1000}))); }
    P0.ops.push_back(mk(OP_verify_all));
    P0.ops.push_back(mk(OP_free_all));
    P0.ops.push_back(mk(OP_footprint_mark));
  }
  uint64_t fl = 8; if (purge >= 7) fl |= 2;      // 8: the arena layout may take a few repetitions to settle (reserve doubling)
  P0.ops.push_back(mk(OP_giveback_check, -1, fl));
}

// give-back after mi_heap_delete of heaps the backing heap cannot absorb (own tag, or bound to an arena): their pages are abandoned
// inside segments the thread still owns; once everything is freed and the threads are gone all of it must be given back
static void fam_c11_heapdelete(G& g, Plan& p) {
  p.cfg.madv_free_mode = 1;
  if (g.chance(0.3)) set_env(p, "ABANDONED_RECLAIM_ON_FREE", g.pick({0, 1}));
  const bool arena = true;       // (heaps with an own tag would do as well, but re-adopting their pages raises the EFAULT report of known finding F6)
  const int nthreads = 1 + (int)g.below(3);
  p.nslots = 80 * (nthreads + 1); p.progs.resize((size_t)(1 + nthreads));
  Program& P0 = p.progs[0];
  if (arena) P0.ops.push_back(mk(OP_reserve_arena, 0, (64 + 32 * g.below(3)) * MiB, g.below(2), g.below(2)));
  int mix = SM_SMALL | SM_BOUNDARY | SM_MEDIUM | (g.chance(0.4) ? SM_LARGE : 0);
  for (int t = 0; t <= nthreads; t++) {
    Program& P = p.progs[(size_t)t]; const int base = t * 80;
    if (t > 0) P.explicit_done = g.chance(0.5);
    int rounds = 1 + (int)g.below(3);
    for (int rd = 0; rd < rounds; rd++) {
      P.ops.push_back(mkh(OP_heap_new_in_arena, 0, 0));
      int n = 6 + (int)g.below(30);
      for (int i = 0; i < n; i++) { Op o = mk(g.chance(0.1) ? OP_zalloc : OP_malloc, base + (int)g.below(70), gen_size(g, mix)); o.hslot = g.chance(0.6) ? 0 : -1; if (o.hslot == 0) o.flags = OPF_MAY_FAIL; P.ops.push_back(o); if (g.chance(0.15)) P.ops.push_back(mk(OP_free, base + (int)g.below(70))); }
      P.ops.push_back(mkh(OP_heap_delete, 0));
      int m = (int)g.below(40);
      for (int i = 0; i < m; i++) P.ops.push_back(g.chance(0.6) ? mk(OP_free, base + (int)g.below(70)) : mk(OP_malloc, base + (int)g.below(70), gen_size(g, mix)));
      if (g.chance(0.3)) P.ops.push_back(mk(OP_collect, -1, g.below(2)));
    }
    if (t > 0) P0.ops.push_back(mk(OP_spawn, t));
  }
  for (int t = 1; t <= nthreads; t++) P0.ops.push_back(mk(OP_join, t));
  P0.ops.push_back(mk(OP_verify_all));
  P0.ops.push_back(mk(OP_free_all));
  P0.ops.push_back(mk(OP_giveback_check, -1, 4));
}

// give-back against the clock: whole segments / huge blocks are freed, re-allocated and collected (forced and not) at times spread
// around the arena purge delay, so that the per-arena and the global purge schedules get out of step; at the end everything is
// freed and one forced collect must have returned all of it
static void fam_c11_timed(G& g, Plan& p) {
  long delay = g.pick({10, 10, 10, 5, 20}); long mult = g.pick({10, 10, 1, 4});
  if (g.chance(0.5)) { set_env(p, "PURGE_DELAY", delay); set_env(p, "ARENA_PURGE_MULT", mult); } else { delay = 10; mult = 10; }
  if (g.chance(0.3)) set_env(p, "ARENA_RESERVE", "64MiB");       // several arenas
  if (g.chance(0.2)) set_env(p, "PURGE_EXTEND_DELAY", g.pick({0, 1, 5}));
  p.cfg.madv_free_mode = 1; p.cfg.tick_ns = 0;
  p.progs.resize(1); p.nslots = 40; Program& P = p.progs[0];
  const uint64_t D = (uint64_t)(delay * mult);     // arena purge delay in ms
  int n = 25 + (int)g.below(60);
  for (int i = 0; i < n; i++) {
    int k = (int)g.below(100); int slot = (int)g.below(12);
    if (k < 30) P.ops.push_back(mk(OP_malloc, slot, g.chance(0.7) ? 17 * MiB + g.below(20 * MiB) : 1 * MiB + g.below(8 * MiB)));
    else if (k < 55) P.ops.push_back(mk(OP_free, slot));
    else if (k < 80) P.ops.push_back(mk(OP_advance, -1, g.pick<uint64_t>({1, D / 4, D / 2, D / 2 + 1, D - 1, D, D + 1, D + D / 2, 2 * D + 3})));
    else if (k < 90) P.ops.push_back(mk(OP_collect, -1, 0));
    else if (k < 97) P.ops.push_back(mk(OP_collect, -1, 1));
    else { P.ops.push_back(mk(OP_malloc, 20 + (int)g.below(10), gen_size(g, SM_SMALL | SM_MEDIUM))); }
  }
  P.ops.push_back(mk(OP_verify_all));
  P.ops.push_back(mk(OP_free_all));
  P.ops.push_back(mk(OP_giveback_check, -1, 4));     // (footprint repetition rule not used here)
}

// ---------------------------------------------------------------------------------
// C18: purge by time, no forced collect
// ---------------------------------------------------------------------------------
static void fam_c18_purge(G& g, Plan& p) {
  long delay = g.pick({-1, 0, 5, 10, 10, 100});
  long mult = g.pick({1, 10, 10}); long ext = g.pick({0, 1, 1});
  set_env(p, "PURGE_DELAY", delay); set_env(p, "ARENA_PURGE_MULT", mult); set_env(p, "PURGE_EXTEND_DELAY", ext);
  if (g.chance(0.3)) set_env(p, "PURGE_DECOMMITS", 0);
  const bool many_arenas = g.chance(0.4);
  if (many_arenas) set_env(p, "ARENA_RESERVE", "64MiB");       // whole segments end up in several arenas: more than two have expired purges at once
  p.progs.resize(1); p.nslots = 120; Program& P = p.progs[0];
  p.cfg.tick_ns = 0;
  int W = (int)g.below(3);    // 0: pages inside a segment that stays in use, 1: whole segments, 2: both, then everything
  // a small block that stays live: ordinary small activity re-uses its page instead of carving up freed spans
  P.ops.push_back(mk(OP_malloc, 100, 64));
  int nwatch = 0, nsent = 0;
  if (W == 0 || W == 2) {
    int n = 6 + (int)g.below(10);
    for (int i = 0; i < n; i++) P.ops.push_back(mk(OP_malloc, i, 200 * KiB + g.below(800 * KiB)));     // one block per (large) page, all in the first segment
    nwatch = n - 4; nsent = 4;
  }
  int nhuge = 0;
  if (W == 1 || W == 2) { nhuge = (many_arenas ? 3 : 2) + (int)g.below(3); for (int i = 0; i < nhuge; i++) P.ops.push_back(mk(OP_malloc, 40 + i, 17 * MiB + g.below(many_arenas ? 12 * MiB : 40 * MiB))); }
  // staggered: one page is freed, the segment is left alone until that purge has expired, then a second page is freed; the only
  // later activity in the segment are allocations of fresh pages (no page free, which would re-arm the schedule)
  const bool staggered = (W == 0) && delay > 0 && g.chance(0.4);
  if (staggered) {
    // the freed pages (slots 0, 2, 4: at most 1 MiB each) keep live neighbours (slots 1, 3, 5) so that the freed spans do not
    // coalesce, and the later fresh pages are larger than any of them: they come from untouched space of the segment. (A page that
    // is carved out of a span with a pending purge postpones that purge by design: "more allocations are coming".)
    uint64_t w1 = (uint64_t)delay + (uint64_t)ext + 2 + g.below(20);
    { Op o = mk(OP_free, 0); o.flags = OPF_WATCH; P.ops.push_back(o); }
    P.ops.push_back(mk(OP_advance, -1, w1));
    int nb = 1 + (int)g.below(2);
    for (int i = 1; i <= nb; i++) { Op o = mk(OP_free, 2 * i); o.flags = OPF_WATCH; P.ops.push_back(o); }
    int rounds = 3;
    for (int r = 0; r < rounds; r++) {
      P.ops.push_back(mk(OP_advance, -1, w1 + g.below(5)));
      { Op o = mk(OP_malloc, 110 + r, 1536 * KiB + g.below(1024 * KiB)); o.flags = OPF_SENTINEL; P.ops.push_back(o); }   // a fresh page in (normally) the same segment
      P.ops.push_back(mk(OP_collect, -1, 0));
      for (int i = 0; i < 4; i++) P.ops.push_back(mk(OP_malloc, 101 + i, 48 + g.below(16)));
      for (int i = 0; i < 4; i++) P.ops.push_back(mk(OP_free, 101 + i));
    }
    P.ops.push_back(mk(OP_purge_check, -1, 1, (uint64_t)rounds, w1 * (uint64_t)rounds));
    return;
  }
  // abandoned: the pages belong to a thread that has left (one block of it stays live, so its segment stays abandoned and in use); the main thread frees
  // the others and goes on with non-forced collects, whose visits release the emptied pages and, a delay later, have to purge them
  if (W != 1 && delay > 0 && g.chance(0.2)) {
    P.ops.clear(); p.progs.resize(2); Program& P0 = p.progs[0]; Program& T1 = p.progs[1]; T1.explicit_done = g.chance(0.5);
    P0.ops.push_back(mk(OP_malloc, 100, 64));
    int n = 4 + (int)g.below(8);
    for (int i = 0; i < n; i++) T1.ops.push_back(mk(OP_malloc, i, 200 * KiB + g.below(800 * KiB)));
    P0.ops.push_back(mk(OP_spawn, 1)); P0.ops.push_back(mk(OP_join, 1));
    const int keep = (int)g.below((uint64_t)n);
    for (int i = 0; i < n; i++) if (i != keep) { Op o = mk(OP_free, i); o.flags = OPF_WATCH; P0.ops.push_back(o); }
    uint64_t sw = (uint64_t)delay + (uint64_t)ext * (uint64_t)(n + 4) + 2;
    int rounds = 5;
    for (int r = 0; r < rounds; r++) {
      P0.ops.push_back(mk(OP_collect, -1, 0));
      for (int i = 0; i < 3; i++) P0.ops.push_back(mk(OP_malloc, 101 + i, 48 + g.below(16)));
      for (int i = 0; i < 3; i++) P0.ops.push_back(mk(OP_free, 101 + i));
      P0.ops.push_back(mk(OP_advance, -1, sw + g.below(5)));
    }
    P0.ops.push_back(mk(OP_collect, -1, 0));
    P0.ops.push_back(mk(OP_purge_check, -1, 1 | 8, 4, sw * 4));
    return;
  }
  // segfree: pages of a segment are freed in two batches with the segment's own purge in between, then nothing of the segment is left: it goes back
  // to its arena partly committed, and what is still committed has to be purged by the arena (after its delay) through ordinary activity
  if (W != 1 && delay >= 0 && g.chance(0.35)) {
    P.ops.clear();
    if (g.chance(0.5)) set_env(p, "ARENA_EAGER_COMMIT", g.pick({0, 1}));
    int n = 6 + (int)g.below(8);
    for (int i = 0; i < n; i++) P.ops.push_back(mk(OP_malloc, i, 1 * MiB + g.below(2 * MiB)));
    const int first = 2 + (int)g.below((uint64_t)n - 3);
    for (int i = 0; i < first; i++) { Op o = mk(OP_free, i); o.flags = OPF_WATCH; P.ops.push_back(o); }
    uint64_t sw = (uint64_t)delay + (uint64_t)ext * (uint64_t)(n + 4) + 2;
    P.ops.push_back(mk(OP_advance, -1, sw + g.below(5)));
    { Op o = mk(OP_free, first); o.flags = OPF_WATCH; P.ops.push_back(o); }      // page-level activity: the segment purges what has expired
    if (g.chance(0.5)) P.ops.push_back(mk(OP_advance, -1, sw + g.below(5)));
    for (int i = first + 1; i < n; i++) { Op o = mk(OP_free, i); o.flags = OPF_WATCH; P.ops.push_back(o); }
    uint64_t aw = (uint64_t)delay * (uint64_t)mult + sw + 2;
    int rounds = 3;
    for (int r = 0; r < rounds; r++) {
      P.ops.push_back(mk(OP_advance, -1, aw + g.below(5)));
      P.ops.push_back(mk(OP_collect, -1, 0));      // (no allocation here: it would take the freed arena block again, which ends the obligation)
    }
    P.ops.push_back(mk(OP_purge_check, -1, 1 | 4, (uint64_t)rounds, aw * (uint64_t)rounds));
    return;
  }
  // scattered: many pages of one segment, a random subset is freed (the others stay live in between, so the freed spans do not
  // coalesce and lie all over the segment's 4 MiB commit-mask words); every one of them has to be purged
  if (W == 0 && delay >= 0 && g.chance(0.45)) {
    P.ops.clear(); P.ops.push_back(mk(OP_malloc, 100, 64));
    int n = 20 + (int)g.below(30); if (n > 90) n = 90;
    for (int i = 0; i < n; i++) P.ops.push_back(mk(OP_malloc, i, 130 * KiB + g.below(g.chance(0.5) ? 120 * KiB : 600 * KiB)));
    std::vector<int> sent, watch;
    for (int k = 0; k < 4; k++) sent.push_back((int)g.below((uint64_t)n));
    for (int i = 0; i < n; i++) if (std::find(sent.begin(), sent.end(), i) == sent.end() && g.chance(0.4)) watch.push_back(i);
    for (int i : watch) { Op o = mk(OP_free, i); o.flags = OPF_WATCH; P.ops.push_back(o); if (delay == 0) P.ops.push_back(mk(OP_purge_check, -1, 1, 0)); }
    uint64_t sw = (uint64_t)(delay > 0 ? delay : 0) + (uint64_t)ext * (watch.size() + 8) + 2;
    int rounds = 3;
    for (int r = 0; r < rounds; r++) {
      P.ops.push_back(mk(OP_advance, -1, sw + g.below(5)));
      { Op o = mk(OP_free, sent[(size_t)r]); o.flags = OPF_SENTINEL; P.ops.push_back(o); }
      P.ops.push_back(mk(OP_collect, -1, 0));
      for (int i = 0; i < 4; i++) P.ops.push_back(mk(OP_malloc, 101 + i, 48 + g.below(16)));
      for (int i = 0; i < 4; i++) P.ops.push_back(mk(OP_free, 101 + i));
    }
    P.ops.push_back(mk(OP_purge_check, -1, 1, (uint64_t)rounds, sw * (uint64_t)rounds));
    return;
  }
  // re-armed arena schedule: a whole segment is freed and taken again before its purge is due, a non-forced pass then finds the
  // arena's deadline expired with nothing left to purge; what is freed after that must still be purged by time
  if (nhuge && delay > 0 && g.chance(0.35)) {
    const uint64_t aw = (uint64_t)delay * (uint64_t)mult + 2;
    int cycles = 1 + (int)g.below(3);
    for (int c = 0; c < cycles; c++) {
      int hs = 40 + (int)g.below((uint64_t)nhuge);
      P.ops.push_back(mk(OP_free, hs));
      if (g.chance(0.5)) P.ops.push_back(mk(OP_advance, -1, g.below(aw)));
      P.ops.push_back(mk(OP_malloc, hs, 17 * MiB + g.below(many_arenas ? 12 * MiB : 40 * MiB)));
      P.ops.push_back(mk(OP_advance, -1, aw + g.below(10)));
      P.ops.push_back(mk(OP_collect, -1, 0));
      if (g.chance(0.5)) { P.ops.push_back(mk(OP_malloc, 101, 48)); P.ops.push_back(mk(OP_free, 101)); }
    }
  }
  // free what is to be watched
  for (int i = 0; i < nwatch; i++) { Op o = mk(OP_free, i); o.flags = OPF_WATCH; P.ops.push_back(o); if (delay == 0) P.ops.push_back(mk(OP_purge_check, -1, 1, 0)); }
  for (int i = 0; i < nhuge; i++) { Op o = mk(OP_free, 40 + i); o.flags = OPF_WATCH; P.ops.push_back(o); if (delay == 0) P.ops.push_back(mk(OP_purge_check, -1, 1, 0)); }
  // activity rounds: never a forced collect
  uint64_t span_wait = (uint64_t)(delay > 0 ? delay : 0) + (uint64_t)ext + 2;
  uint64_t arena_wait = (uint64_t)(delay > 0 ? delay : 0) * (uint64_t)mult + 2;
  uint64_t wait = (nhuge ? (arena_wait > span_wait ? arena_wait : span_wait) : span_wait);
  int rounds = many_arenas ? 4 : 3;
  const bool huge_activity = g.chance(0.5);    // otherwise the non-forced mi_collect alone has to get the arenas purged
  for (int r = 0; r < rounds; r++) {
    P.ops.push_back(mk(OP_advance, -1, wait + g.below(5)));
    if (nsent > 0 && r < nsent) { Op o = mk(OP_free, nwatch + r); o.flags = OPF_SENTINEL; P.ops.push_back(o); }
    P.ops.push_back(mk(OP_collect, -1, 0));
    for (int i = 0; i < 4; i++) { P.ops.push_back(mk(OP_malloc, 101 + i, 48 + g.below(16))); }
    for (int i = 0; i < 4; i++) P.ops.push_back(mk(OP_free, 101 + i));
    if (nhuge && huge_activity) { P.ops.push_back(mk(OP_malloc, 60, 17 * MiB + g.below(8 * MiB))); P.ops.push_back(mk(OP_free, 60)); }   // one segment-sized allocate/free
  }
  if (delay >= 0) P.ops.push_back(mk(OP_purge_check, -1, 1, (uint64_t)rounds, wait * (uint64_t)rounds));
  if (delay < 0) { P.ops.push_back(mk(OP_free_all)); P.ops.push_back(mk(OP_collect, -1, 1)); P.ops.push_back(mk(OP_purge_check, -1, 2)); }
}


// ---------------------------------------------------------------------------------
// C03: size and alignment contract, interior pointers
// ---------------------------------------------------------------------------------
static void warm_state(G& g, Program& P, int base, int nslots, size_t around) {
  // bring the page of the size class into some state: empty / partly used / next free block aligned or not / retired
  int n = (int)g.below(30);
  for (int i = 0; i < n; i++) {
    int s = base + (int)g.below((uint64_t)nslots);
    if (g.chance(0.6)) P.ops.push_back(mk(OP_malloc, s, around > 8 ? around - g.below(9) : around)); else P.ops.push_back(mk(OP_free, s));
  }
}

static void fam_c03_align(G& g, Plan& p) {
  p.nslots = 120; p.progs.resize(1); Program& P = p.progs[0];
  if (g.chance(0.3)) {
    // the small-block fast path of aligned allocation: a warm page of one size class (usually not a multiple of the alignment), aligned
    // requests with all kinds of offsets interleaved with plain requests so that the head of the free list takes every residue
    p.nslots = 300;
    auto bs = bin_sizes(); const int rounds = 1 + (int)g.below(3); int sl = 0;
    if (g.chance(0.3)) P.ops.push_back(mkh(OP_heap_new, 0));
    for (int rd = 0; rd < rounds; rd++) {
      size_t b = bs[6 + g.below(27)]; if (b < 16) b = 16;
      size_t req = (g.padded && b > 8) ? b - 8 : b;
      size_t al = (size_t)1 << (4 + g.below(6)); while (al > req && al > 16) al >>= 1;
      int warm = (int)g.below(12);
      for (int i = 0; i < warm && sl < 280; i++) P.ops.push_back(mk(OP_malloc, sl++, req));
      int n = 10 + (int)g.below(40);
      for (int i = 0; i < n && sl < 290; i++) {
        if (g.chance(0.4)) { P.ops.push_back(mk(g.chance(0.8) ? OP_malloc : OP_zalloc, sl++, req - g.below(2))); continue; }
        if (g.chance(0.1) && sl > 0) { P.ops.push_back(mk(OP_free, (int)g.below((uint64_t)sl))); continue; }
        size_t off = g.pick<size_t>({0, 8, 16, 16, 32, 48, al / 2, al - 16, al + 16, 3 * al / 2, 24, 40}); if (g.build == "DBG") off &= ~(size_t)7;
        int v = (int)g.below(10);
        Op o = mk(v < 6 ? OP_malloc_aligned_at : v < 8 ? OP_zalloc_aligned_at : OP_calloc_aligned_at, sl++, req, al, off);
        if (o.code == OP_calloc_aligned_at) { o.a = 1; o.b = req; o.c = al; o.d = off; }
        if (g.chance(0.2)) o.hslot = 0;
        P.ops.push_back(o);
      }
    }
    P.ops.push_back(mk(OP_verify_all));
    return;
  }
  if (g.chance(0.12)) {
    // the smallest classes: requests of up to 8 bytes come from the 8-byte class, in which only every other block is 16-byte aligned; the aligned
    // entry points (allocation and re-allocation, shrinking from a larger block or starting from NULL) must still deliver the alignment asked for
    p.nslots = 200; int sl = 0;
    for (int rd = 0; rd < 3; rd++) {
      int warm = (int)g.below(7);
      for (int i = 0; i < warm && sl < 190; i++) P.ops.push_back(mk(OP_malloc, sl++, 1 + g.below(8)));
      int n = 6 + (int)g.below(20);
      for (int i = 0; i < n && sl < 195; i++) {
        size_t al = g.pick<size_t>({16, 16, 16, 32, 8}); size_t nsz = 1 + g.below(g.chance(0.7) ? 8 : 16); size_t off = g.pick<size_t>({0, 0, 16, 32});
        int v = (int)g.below(8);
        if (v < 2) { P.ops.push_back(mk(OP_malloc, sl, 40 + g.below(100))); P.ops.push_back(mk(g.chance(0.5) ? OP_realloc_aligned : OP_rezalloc_aligned, sl++, nsz, al)); }       // shrink by more than half: moves
        else if (v < 3) { P.ops.push_back(mk(OP_malloc, sl, 40 + g.below(100))); P.ops.push_back(mk(OP_realloc_aligned_at, sl++, nsz, al, off)); }
        else if (v < 5) { if (g.chance(0.5)) P.ops.push_back(mk(OP_realloc_aligned, sl++, nsz, al)); else P.ops.push_back(mk(OP_recalloc_aligned, sl++, 1 + g.below(2), nsz / 2 + 1, al)); }   // from NULL (recalloc: count, size, alignment)
        else if (v < 6) P.ops.push_back(mk(OP_realloc_aligned_at, sl++, nsz, al, off));
        else if (v < 7) P.ops.push_back(mk(OP_malloc_aligned, sl++, nsz, al));
        else P.ops.push_back(mk(OP_malloc, sl++, 1 + g.below(8)));
      }
    }
    P.ops.push_back(mk(OP_verify_all));
    return;
  }
  int K = 6 + (int)g.below(25);
  for (int k = 0; k < K; k++) {
    int slot = (int)g.below(60);
    int mix = SM_SMALL | SM_BOUNDARY | (g.chance(0.5) ? SM_MEDIUM : 0) | (g.chance(0.3) ? SM_LARGE : 0);
    size_t sz = gen_size(g, mix);
    size_t al = g.chance(0.12) ? (size_t)1 << (24 + g.below(5)) : g.chance(0.5) ? (size_t)1 << g.below(12) : (size_t)1 << (12 + g.below(12));
    size_t off = 0;
    if (al <= 16 * MiB && g.chance(0.5)) { off = g.pick<size_t>({8, 16, 24, 64, 4096, 65536, (sz / 2) & ~(size_t)7, sz & ~(size_t)7}); if (g.build != "DBG" && g.chance(0.4)) off = g.pick<size_t>({1, 3, 5, 12, sz / 2, sz, 100}); if (off > 64 * KiB) off = 64 * KiB; }
    warm_state(g, P, 60, 60, sz);
    P.ops.push_back(mk(OP_free, slot));
    int v = (int)g.below(10); Op o;
    if (off) o = mk(v < 6 ? OP_malloc_aligned_at : v < 8 ? OP_zalloc_aligned_at : OP_calloc_aligned_at, slot, sz, al, off);
    else o = mk(v < 4 ? OP_malloc_aligned : v < 5 ? OP_zalloc_aligned : v < 6 ? OP_calloc_aligned : v < 7 ? OP_memalign : v < 8 ? OP_aligned_alloc : v < 9 ? OP_posix_memalign : OP_new_aligned_nothrow, slot, sz, al);
    if (o.code == OP_calloc_aligned_at) { o.a = 1; o.b = sz; o.c = al; o.d = off; }
    if (o.code == OP_calloc_aligned) { o.a = 1; o.b = sz; o.c = al; }
    if (o.code == OP_posix_memalign && al < 8) o.b = 8;
    if (g.chance(0.3)) { P.ops.push_back(mkh(OP_heap_new, 0)); o.hslot = (o.code == OP_memalign || o.code == OP_aligned_alloc || o.code == OP_posix_memalign || o.code == OP_new_aligned_nothrow) ? -1 : 0; }
    P.ops.push_back(o);
    // the pointer is accepted by expand / realloc family / free variants like an ordinary pointer
    int follow = (int)g.below(4);
    for (int f = 0; f < follow; f++) {
      int w = (int)g.below(6);
      size_t nsz = g.chance(0.5) ? sz + g.below(sz / 2 + 64) : sz - g.below(sz / 2 + 1);
      size_t ral = al > 4 * MiB ? 4 * MiB : al;
      if (w == 0) P.ops.push_back(mk(OP_expand, slot, g.chance(0.5) ? sz : sz + g.below(64)));
      else if (w == 1) P.ops.push_back(mk(OP_realloc_aligned, slot, nsz, ral));
      else if (w == 2) P.ops.push_back(mk(OP_realloc_aligned_at, slot, nsz, ral, off > 4096 ? 64 : off));
      else if (w == 3) P.ops.push_back(mk(OP_realloc, slot, nsz));
      else if (w == 4) P.ops.push_back(mk(OP_rezalloc_aligned, slot, nsz, ral));
      else P.ops.push_back(mk(OP_verify_all));
    }
    if (g.chance(0.6)) P.ops.push_back(gen_free(g, slot));
    if (g.chance(0.1)) P.ops.push_back(mk(OP_collect, -1, g.below(2)));
  }
  P.ops.push_back(mk(OP_verify_all));
}

// aligned blocks that lie inside over-allocated blocks, through everything that can happen to their page while they are live: the page
// fills up and comes back, is moved within its queue, is abandoned by its thread and adopted by another one. Afterwards the pointers
// are measured, freed (as interior pointers) and their size class is allocated from again
static void fam_c03_pagelife(G& g, Plan& p) {
  const bool threaded = g.chance(0.5);
  p.nslots = 2600; p.progs.resize(threaded ? 2 : 1);
  Program& P0 = p.progs[0];
  // request s with alignment al > 16 is served from a block of s + al - 1 bytes: pick the class of that size for the plain requests
  size_t al = (size_t)1 << (5 + g.below(8));                 // 32 .. 4096
  size_t s = g.chance(0.5) ? 1 + g.below(al) : 1 + g.below(3000);
  size_t over = s + al - 1; if (g.padded) over += 8;
  auto bs = bin_sizes(); size_t cls = 0; for (size_t b : bs) if (b >= over) { cls = b; break; }
  size_t plain = g.padded ? cls - 8 : cls;
  int per_page = (int)((64 * KiB) / cls); if (cls > 8 * KiB) per_page = (int)((512 * KiB) / cls); if (per_page < 2) per_page = 2; if (per_page > 400) per_page = 400;
  const int W = per_page + 8;
  auto aligned = [&](Program& P, int slot) { int v = (int)g.below(6); Op o = mk(v < 3 ? OP_malloc_aligned : v < 4 ? OP_zalloc_aligned : v < 5 ? OP_memalign : OP_posix_memalign, slot, s, al); P.ops.push_back(o); };
  const int A0 = 2000; int na = 0;      // aligned blocks live in slots [A0, A0 + na)
  if (threaded) {
    Program& Q = p.progs[1]; Q.explicit_done = g.chance(0.5);
    int n = 4 + (int)g.below(30);
    for (int i = 0; i < n; i++) { if (g.chance(0.6) && na < 300) aligned(Q, A0 + na++); else Q.ops.push_back(mk(OP_malloc, 1000 + i, plain)); }
    if (g.chance(0.5)) { Op o = mk(OP_fill_page, 1100, plain, (uint64_t)W, (uint64_t)W); Q.ops.push_back(o); if (na < 300) aligned(Q, A0 + na++); }
    P0.ops.push_back(mk(OP_spawn, 1)); P0.ops.push_back(mk(OP_join, 1));
    // adoption: a forced collect, or allocations of the same class (and a large one that asks for a fresh segment)
    int how = (int)g.below(3);
    if (how == 0) P0.ops.push_back(mk(OP_collect, -1, 1));
    else if (how == 1) { for (int i = 0; i < 6; i++) P0.ops.push_back(mk(OP_malloc, 1500 + i, plain)); P0.ops.push_back(mk(OP_malloc, 1510, 3 * MiB)); }
    else { set_env(p, "ABANDONED_RECLAIM_ON_FREE", 1); P0.ops.push_back(mk(OP_free, A0 + (int)g.below((uint64_t)na + 1))); }
  }
  else {
    int nfill = 0; std::vector<int> refs;
    int steps = 5 + (int)g.below(10);
    for (int st = 0; st < steps; st++) {
      int mv = g.pick({0, 0, 1, 1, 1, 2, 2, 3, 4});
      if (mv == 0 && (nfill + 1) * W < 1900) { Op o = mk(OP_fill_page, nfill * W, plain - g.below(2), (uint64_t)W, (uint64_t)W); P0.ops.push_back(o); refs.push_back(nfill * W); nfill++; }
      else if (mv == 1) { int k = 1 + (int)g.below(4); for (int i = 0; i < k && na < 300; i++) aligned(P0, A0 + na++); }
      else if (mv == 2 && !refs.empty()) P0.ops.push_back(mk(OP_free_page, refs[g.below(refs.size())], g.chance(0.5) ? 1 : g.below(4), g.below(2), g.chance(0.5) ? 0 : 1 + g.below(3)));
      else if (mv == 3) { for (int i = 0; i < 1 + (int)g.below(3); i++) P0.ops.push_back(mk(OP_malloc, 1900 + (int)g.below(90), plain)); }
      else P0.ops.push_back(mk(OP_collect, -1, g.below(2)));
    }
  }
  P0.ops.push_back(mk(OP_verify_all));
  // free some of the aligned blocks through the different entry points, then allocate in their class again
  for (int i = 0; i < na; i++) if (g.chance(0.5)) P0.ops.push_back(gen_free(g, A0 + i));
  for (int i = 0; i < 20 + (int)g.below(40); i++) P0.ops.push_back(mk(OP_malloc, 2400 + i, plain));
  for (int i = 0; i < na; i++) if (g.chance(0.3)) { int w = (int)g.below(3); P0.ops.push_back(w == 0 ? mk(OP_realloc, A0 + i, s + g.below(64)) : w == 1 ? mk(OP_realloc_aligned, A0 + i, s + g.below(64), al) : mk(OP_expand, A0 + i, s)); }
  P0.ops.push_back(mk(OP_verify_all));
}

// ---------------------------------------------------------------------------------
// C04: zero-initialising allocation
// ---------------------------------------------------------------------------------
static Op gen_zero_alloc(G& g, int slot, size_t sz, int hslot) {
  int v = (int)g.below(9); Op o;
  size_t al = (size_t)1 << (3 + g.below(10));
  switch (v) {
    case 0: case 1: o = mk(OP_zalloc, slot, sz); break;
    case 2: { size_t n = 1 + g.below(7); o = mk(OP_calloc, slot, n, sz / n + 1); break; }
    case 3: o = mk(OP_zalloc_small, slot, sz % (SMALL_MAX + 1)); break;
    case 4: o = mk(OP_zalloc_aligned, slot, sz, al); break;
    case 5: o = mk(OP_zalloc_aligned_at, slot, sz, al, g.pick<size_t>({8, 16, 64})); break;
    case 6: { size_t n = 1 + g.below(5); o = mk(OP_calloc_aligned, slot, n, sz / n + 1, al); break; }
    case 7: { size_t n = 1 + g.below(5); o = mk(OP_calloc_aligned_at, slot, n, sz / n + 1, al, g.pick<size_t>({8, 32})); break; }
    default: o = mk(OP_rezalloc, slot, sz); break;   // rezalloc(NULL, n) behaves as a zeroing allocation (slot is empty)
  }
  o.hslot = (o.code == OP_zalloc_small) ? -1 : hslot;
  return o;
}

static void fam_c04_dirty(G& g, Plan& p) {
  int how = (int)g.below(6);   // 0 local free, 1 remote free, 2 heap_destroy, 3 purge + recommit (advance clock), 4 abandon + reclaim, 5 donated dirty arena
  int nt = (how == 1 || how == 4) ? 2 : 1;
  p.nslots = 300; p.progs.resize((size_t)nt);
  Program& P0 = p.progs[0];
  if (how == 3) { set_env(p, "PURGE_DELAY", g.pick({0, 1, 10})); if (g.chance(0.5)) set_env(p, "PURGE_DECOMMITS", 0); p.cfg.madv_free_mode = g.pick({0, 0, 2}); }
  int mixsel = (int)g.below(10);
  int mix = mixsel < 6 ? (SM_SMALL | SM_BOUNDARY) : mixsel < 8 ? SM_MEDIUM : mixsel < 9 ? SM_LARGE : SM_HUGE;
  size_t sz = gen_size(g, mix); if (sz == 0) sz = 24;
  int n = (mix == SM_HUGE) ? 2 + (int)g.below(3) : (mix == SM_LARGE) ? 4 + (int)g.below(8) : 20 + (int)g.below(120);
  int hs = -1;
  if (how == 2) { P0.ops.push_back(mkh(OP_heap_new, 0)); hs = 0; }
  if (how == 5) { Op a = mk(OP_manage_arena, 0, (64 + 32 * g.below(3)) * MiB, 1 /*committed*/ | (g.chance(0.5) ? 2 : 0) /*exclusive*/, g.chance(0.5) ? 0 : 4096 * (1 + g.below(100))); P0.ops.push_back(a); P0.ops.push_back(mkh(OP_heap_new_in_arena, 1, 0)); hs = 1; if (sz > 8 * MiB) sz = 8 * MiB; }
  if (how == 4) {
    // the dirtying thread exits with one block still live; the zeroing thread reclaims its segment
    P0.ops.push_back(mk(OP_spawn, 1));
    Program& P1 = p.progs[1];
    for (int i = 0; i < n; i++) P1.ops.push_back(mk(OP_malloc, i, sz));
    for (int i = 1; i < n; i++) P1.ops.push_back(mk(OP_free, i));
    P0.ops.push_back(mk(OP_join, 1));
    if (g.chance(0.5)) P0.ops.push_back(mk(OP_free, 0));
  } else {
    for (int i = 0; i < n; i++) { Op o = mk(OP_malloc, i, sz - (sz > 16 ? g.below(8) : 0)); o.hslot = hs; if (how == 5) o.flags |= OPF_MAY_FAIL; P0.ops.push_back(o); }
    if (how == 1) { P0.ops.push_back(mk(OP_spawn, 1)); for (int i = 0; i < n; i++) p.progs[1].ops.push_back(mk(OP_free, i)); P0.ops.push_back(mk(OP_join, 1)); }
    else if (how == 2) { P0.ops.push_back(mkh(OP_heap_destroy, 0)); hs = -1; }
    else { int keep = g.chance(0.3) ? 1 + (int)g.below(3) : 0; for (int i = keep; i < n; i++) P0.ops.push_back(mk(OP_free, i)); }
    if (how == 3) { P0.ops.push_back(mk(OP_advance, -1, g.pick<uint64_t>({11, 20, 200}))); P0.ops.push_back(mk(OP_collect, -1, g.below(2))); P0.ops.push_back(mk(OP_malloc, 290, 64)); P0.ops.push_back(mk(OP_free, 290)); }
  }
  if (g.chance(0.3)) P0.ops.push_back(mk(OP_collect, -1, g.below(2)));
  for (int i = 0; i < n + 10; i++) { Op o = gen_zero_alloc(g, 100 + (i % 180), sz - (sz > 32 ? g.below(16) : 0), hs); if (how == 5) o.flags |= OPF_MAY_FAIL; P0.ops.push_back(o); }
  P0.ops.push_back(mk(OP_verify_all));
}

// huge blocks: dirty memory handed back by the arena, zeroing allocation, then growth inside the slack of the huge page
static void fam_c04_hugeslack(G& g, Plan& p) {
  p.nslots = 20; p.progs.resize(1); Program& P = p.progs[0];
  set_env(p, "PURGE_DELAY", g.pick({10, 100, -1}));      // freed arena blocks are not purged right away
  if (g.chance(0.5)) set_env(p, "PURGE_DECOMMITS", 0);   // reset mode: a purge is an MADV_FREE, after which the old contents may still be there
  p.cfg.madv_free_mode = 0;
  int rounds = 1 + (int)g.below(3);
  for (int r = 0; r < rounds; r++) {
    size_t S1 = 17 * MiB + g.below(40 * MiB);
    Op d = mk(OP_malloc, 0, S1); d.flags = OPF_FULL_FILL; P.ops.push_back(d);     // every byte dirty
    P.ops.push_back(mk(OP_free, 0));
    size_t S2 = S1 - g.below(900 * KiB);
    int v = (int)g.below(4);
    Op z = (v == 0) ? mk(OP_zalloc, 1, S2) : (v == 1) ? mk(OP_calloc, 1, 1, S2) : (v == 2) ? mk(OP_rezalloc, 1, S2) : mk(OP_zalloc_aligned, 1, S2, 64);
    P.ops.push_back(z);
    int steps = 1 + (int)g.below(4); size_t sz = S2;
    for (int k = 0; k < steps; k++) { sz += 4096 + g.below(300 * KiB); P.ops.push_back(g.chance(0.5) ? mk(OP_rezalloc, 1, sz) : mk(OP_recalloc, 1, 1, sz)); }
    P.ops.push_back(mk(OP_free, 1));
  }
}

// monotone growth chains starting from a zeroing allocation
static void fam_c04_grow(G& g, Plan& p) {
  p.nslots = 60; p.progs.resize(1); Program& P = p.progs[0];
  int chains = 1 + (int)g.below(5);
  if (g.chance(0.3)) P.ops.push_back(mkh(OP_heap_new, 0));
  for (int c = 0; c < chains; c++) {
    int slot = c;
    // dirty the neighbourhood first
    for (int i = 0; i < (int)g.below(20); i++) { int s = 20 + (int)g.below(30); P.ops.push_back(g.chance(0.6) ? mk(OP_malloc, s, gen_size(g, SM_SMALL | SM_MEDIUM)) : mk(OP_free, s)); }
    size_t sz = g.chance(0.7) ? 1 + g.below(200) : gen_size(g, SM_SMALL | SM_MEDIUM);
    int hs = g.chance(0.3) ? 0 : -1;
    { int nd = 1 + (int)g.below(6); size_t cap = sz + sz / 8 + 16;      // same size class, written over their whole usable size, then freed
      for (int i = 0; i < nd; i++) { Op o = mk(OP_malloc, 50 + i, sz + g.below(cap - sz)); o.hslot = hs; P.ops.push_back(o); }
      for (int i = 0; i < nd; i++) if (g.chance(0.8)) P.ops.push_back(mk(OP_free, 50 + i)); }
    P.ops.push_back(gen_zero_alloc(g, slot, sz, hs));
    int steps = 2 + (int)g.below(12);
    size_t al = g.chance(0.3) ? (size_t)1 << (4 + g.below(10)) : 0;
    for (int k = 0; k < steps; k++) {
      int how = (int)g.below(5);
      size_t grow = how == 0 ? 1 + g.below(8) : how == 1 ? sz / 8 + 1 : how == 2 ? sz + g.below(sz + 8) : how == 3 ? g.below(64 * KiB) : g.below(3 * MiB);
      sz += grow; if (sz > 40 * MiB) break;
      int v = (int)g.below(al ? 6 : 3); Op o;
      if (v == 0 || v == 1) o = mk(OP_rezalloc, slot, sz);
      else if (v == 2) { size_t n = 1 + g.below(4); sz = (sz / n + 1) * n; o = mk(OP_recalloc, slot, n, sz / n); }
      else if (v == 3) o = mk(OP_rezalloc_aligned, slot, sz, al);
      else if (v == 4) o = mk(OP_rezalloc_aligned_at, slot, sz, al, 0);
      else { size_t n = 1 + g.below(4); sz = (sz / n + 1) * n; o = mk(OP_recalloc_aligned, slot, n, sz / n, al); }
      o.hslot = hs; P.ops.push_back(o);
      if (g.chance(0.2)) { int s = 20 + (int)g.below(30); P.ops.push_back(mk(OP_malloc, s, gen_size(g, SM_SMALL | SM_MEDIUM))); }
    }
  }
  P.ops.push_back(mk(OP_verify_all));
}

// ---------------------------------------------------------------------------------
// C05: re-allocation
// ---------------------------------------------------------------------------------
static void fam_c05_realloc(G& g, Plan& p) {
  p.nslots = 80; p.progs.resize(1); Program& P = p.progs[0];
  bool with_faults = g.chance(0.25);
  int nh = g.chance(0.4) ? 2 : 0;
  if (nh) { P.ops.push_back(mkh(OP_heap_new, 0)); P.ops.push_back(mkh(OP_heap_new, 1)); }
  int K = 20 + (int)g.below(120);
  int mix = SM_SMALL | SM_BOUNDARY | SM_ZERO | (g.chance(0.6) ? SM_MEDIUM : 0) | (g.chance(0.4) ? SM_LARGE : 0) | (g.chance(0.15) ? SM_HUGE : 0);
  for (int k = 0; k < K; k++) {
    int slot = (int)g.below(40); int x = (int)g.below(100);
    if (x < 25) P.ops.push_back(gen_alloc(g, slot, mix, nh, true));
    else if (x < 40) P.ops.push_back(gen_free(g, slot));
    else if (x < 44) P.ops.push_back(mk(OP_collect, -1, g.below(2)));
    else if (x < 48) { Op o = mk(OP_reallocn, slot, SIZE_MAX / 2 + g.below(1000), 2 + g.below(8)); P.ops.push_back(o); }                   // overflowing count*size: must fail, block untouched
    else if (x < 50) { int w = (int)g.below(3); Op o = mk(w == 0 ? OP_recalloc : w == 1 ? OP_reallocarray : OP_reallocarr, slot, (uint64_t)1 << 40, (uint64_t)1 << 40); o.hslot = -1; P.ops.push_back(o); }
    else if (x < 54 && with_faults) {
      // the C++ entry points: the OS refuses, the installed new_handler frees memory up (the simulated OS heals), the retry inside mi_new_realloc(n)
      // must still be a re-allocation (contents carried over, old block released)
      size_t sz = g.chance(0.5) ? 3 * MiB + g.below(60 * MiB) : gen_size(g, mix | SM_LARGE);
      Op o = g.chance(0.6) ? mk(OP_new_realloc, slot, sz) : mk(OP_new_reallocn, slot, 1 + g.below(4), sz / 4);
      o.flags |= OPF_NEW_HANDLER | OPF_MAY_FAIL;
      OpFault f; f.kind = OS_MMAP; f.nth = 0; f.persistent = true; o.faults.push_back(f);
      OpFault f2; f2.kind = OS_MPROTECT_RW; f2.nth = 0; f2.persistent = true; o.faults.push_back(f2);
      P.ops.push_back(o);
    }      // count*size overflows: must fail and leave the block (and the caller's pointer) alone
    else {
      Op o = gen_realloc(g, slot, mix, nh, true);
      if (with_faults && g.chance(0.15)) { OpFault f; f.kind = OS_MMAP; f.nth = 0; f.persistent = false; o.faults.push_back(f); o.flags |= OPF_MAY_FAIL; if (g.chance(0.5)) { OpFault f2; f2.kind = OS_MPROTECT_RW; f2.nth = 0; o.faults.push_back(f2); } }
      P.ops.push_back(o);
    }
  }
  P.ops.push_back(mk(OP_verify_all));
}


// page-queue history (full -> unfull -> moved to the front of its queue) under blocks that are then re-allocated: in-place
// growth, expand and moving re-allocation all depend on page flags (has_aligned) that the queue operations must preserve
static void fam_c05_pagecycle(G& g, Plan& p) {
  p.nslots = 600;
  p.progs.resize(1); Program& P = p.progs[0];
  auto bs = bin_sizes();
  int rounds = 1 + (int)g.below(2);
  for (int rd = 0; rd < rounds; rd++) {
    size_t b = bs[8 + g.below(40)];
    size_t req = b - (g.padded ? 8 : 0); if ((long)req < 48) req = 48;
    size_t per_page = (64 * KiB) / b; if (per_page < 1) per_page = 1;
    size_t n = per_page * (1 + g.below(3)) + g.below(per_page); if (n > 580) n = 580;
    std::vector<char> is_al(n, 0);
    for (size_t i = 0; i < n; i++) {
      if (g.chance(0.12)) {
        size_t al = (size_t)1 << (4 + g.below(5)); size_t off = 8 * (1 + g.below(3));
        size_t sz = req > al + 16 ? req - al - 8 : 8;
        P.ops.push_back(g.chance(0.5) ? mk(OP_malloc_aligned_at, (int)i, sz, al, off) : mk(OP_malloc_aligned, (int)i, sz, al * 2));
        is_al[i] = 1;
      }
      else P.ops.push_back(mk(g.chance(0.2) ? OP_zalloc : OP_malloc, (int)i, req - g.below(3)));
    }
    // free a part (never all aligned blocks) so that pages leave the full queue, then allocate until older pages are picked again
    std::vector<int> idx; for (size_t i = 0; i < n; i++) idx.push_back((int)i);
    for (size_t i = n; i > 1; i--) std::swap(idx[i - 1], idx[g.below(i)]);
    size_t nfree = n / 8 + g.below(n / 2 + 1);
    std::vector<int> freed;
    for (size_t i = 0; i < nfree; i++) { int sl = idx[i]; if (is_al[(size_t)sl] && g.chance(0.8)) continue; P.ops.push_back(mk(OP_free, sl)); freed.push_back(sl); }
    if (g.chance(0.3)) P.ops.push_back(mk(OP_collect, -1, 0));
    size_t refill = g.below(freed.size() + 1);
    for (size_t i = 0; i < refill; i++) P.ops.push_back(mk(OP_malloc, freed[i], req));
    for (size_t i = 0; i < 8 + g.below(24); i++) P.ops.push_back(mk(OP_malloc, 590 + (int)g.below(10), req));   // fresh pages in front
    // now re-allocate survivors, the over-aligned ones first
    std::vector<int> surv; for (size_t i = 0; i < n; i++) if (is_al[i]) surv.push_back((int)i);
    for (size_t i = nfree; i < n && surv.size() < 80; i++) surv.push_back(idx[i]);
    for (int sl : surv) {
      if (g.chance(0.25)) continue;
      int k = (int)g.below(10); size_t nsz = k < 4 ? req + g.below(200) : k < 7 ? req - g.below(req / 3) : req * 2 + g.below(req);
      int c = (int)g.below(10);
      Op o = c < 3 ? mk(OP_realloc, sl, nsz) : c < 5 ? mk(OP_expand, sl, nsz) : c < 7 ? mk(OP_realloc_aligned, sl, nsz, (size_t)1 << (4 + g.below(5)))
           : c < 8 ? mk(OP_rezalloc, sl, nsz) : c < 9 ? mk(OP_reallocf, sl, nsz) : mk(OP_realloc_aligned_at, sl, nsz, (size_t)1 << (4 + g.below(4)), 8 * (1 + g.below(3)));
      P.ops.push_back(o);
      if (g.chance(0.3)) P.ops.push_back(mk(OP_malloc, 580 + (int)g.below(10), req));   // what a wrongly released block would be handed out to
    }
    P.ops.push_back(mk(OP_verify_all));
    if (g.chance(0.6)) P.ops.push_back(mk(OP_free_all));
  }
}

// ---------------------------------------------------------------------------------
// C06: malformed or oversized requests in the middle of histories
// ---------------------------------------------------------------------------------
static void fam_c06_badreq(G& g, Plan& p) {
  p.nslots = 80; p.progs.resize(1); Program& P = p.progs[0];
  int K = 30 + (int)g.below(150);
  int mix = SM_SMALL | SM_BOUNDARY | SM_ZERO | (g.chance(0.5) ? SM_MEDIUM : 0) | (g.chance(0.3) ? SM_LARGE : 0);
  if (g.chance(0.3)) { P.ops.push_back(mkh(OP_heap_new, 0)); P.ops.push_back(mkh(OP_heap_set_default, 0)); }
  for (int k = 0; k < K; k++) {
    int slot = (int)g.below(60); int x = (int)g.below(100);
    if (x < 35) P.ops.push_back(gen_alloc(g, slot, mix, 0, true));
    else if (x < 50) P.ops.push_back(gen_free(g, slot));
    else if (x < 56) P.ops.push_back(gen_realloc(g, slot, mix, 0, false));
    else { int kind = (int)g.below(40); if (g.build == "DBG" && (kind == 6 || kind == 26)) kind = 7; P.ops.push_back(mk(OP_bad_request, slot, (uint64_t)kind, 1 + g.below(5000))); }
  }
  P.ops.push_back(mk(OP_verify_all));
}

// well-formed requests of moderate size must succeed when the OS refuses nothing
static void fam_c06_wellformed(G& g, Plan& p) {
  p.nslots = 40; p.progs.resize(1); Program& P = p.progs[0];
  int K = 10 + (int)g.below(40);
  for (int k = 0; k < K; k++) {
    int slot = (int)g.below(40);
    if (g.chance(0.4)) { P.ops.push_back(mk(OP_free, slot)); continue; }
    size_t sz = g.chance(0.5) ? gen_size(g, SM_ALL) : (size_t)(g.below(256) * MiB + g.below(MiB));
    if (sz > 256 * MiB) sz = 256 * MiB;
    if (g.chance(0.5)) P.ops.push_back(mk(g.chance(0.2) ? OP_zalloc : OP_malloc, slot, sz));
    else { size_t al = (size_t)1 << g.below(29); Op o = mk(g.chance(0.8) ? OP_malloc_aligned : OP_zalloc_aligned, slot, sz, al); P.ops.push_back(o); }
  }
}

// ---------------------------------------------------------------------------------
// C12: heap walking
// ---------------------------------------------------------------------------------
static void fam_c12_holes(G& g, Plan& p) {
  p.nslots = 700; p.progs.resize(1); Program& P = p.progs[0];
  int nh = 1 + (int)g.below(3);
  for (int h = 0; h < nh; h++) if (h > 0 || g.chance(0.5)) P.ops.push_back(mkh(OP_heap_new, h));
  int groups = 1 + (int)g.below(4); int base = 0;
  for (int gi = 0; gi < groups && base < 600; gi++) {
    int hs = g.chance(0.4) ? -1 : (int)g.below((uint64_t)nh);
    int kind = (int)g.below(10);
    if (kind < 6) {
      auto bs = bin_sizes(); size_t b = bs[g.below(52)]; size_t req = (g.padded && b > 8) ? b - 8 : b;
      size_t cap = (b <= 8 * KiB ? 64 * KiB : 512 * KiB) / b;
      // capacity relative to 64: exactly a multiple, one less, one more, partial
      int n = (int)(g.chance(0.3) ? (cap / 64) * 64 : g.chance(0.5) ? cap : g.below(cap * 2 + 2)); if (n > 250) n = 64 * (int)(1 + g.below(3)); if (n < 1) n = 1;
      if (base + n > 690) n = 690 - base;
      for (int i = 0; i < n; i++) { Op o = mk(g.chance(0.05) ? OP_zalloc : OP_malloc, base + i, req); o.hslot = hs; P.ops.push_back(o); }
      int pat = (int)g.below(5);
      for (int i = 0; i < n; i++) { bool fr = pat == 0 ? false : pat == 1 ? true : pat == 2 ? (i % (2 + (int)g.below(2))) == 0 : pat == 3 ? g.chance(0.5) : (i < n / 2); if (fr) P.ops.push_back(mk(OP_free, base + i)); }
      base += n;
    } else if (kind < 8) {   // aligned blocks: interior pointers
      int n = 3 + (int)g.below(10);
      for (int i = 0; i < n; i++) { Op o = mk(OP_malloc_aligned, base + i, 1 + g.below(5000), (size_t)1 << (5 + g.below(12))); o.hslot = hs; P.ops.push_back(o); if (g.chance(0.3)) P.ops.push_back(mk(OP_free, base + (int)g.below((uint64_t)i + 1))); }
      base += n;
    } else {   // single-block pages: large and huge
      int n = 1 + (int)g.below(4);
      for (int i = 0; i < n; i++) { Op o = mk(OP_malloc, base + i, g.chance(0.5) ? 100 * KiB + g.below(4 * MiB) : 17 * MiB + g.below(30 * MiB)); o.hslot = hs; P.ops.push_back(o); }
      if (g.chance(0.5)) P.ops.push_back(mk(OP_free, base));
      base += n;
    }
    if (g.chance(0.4)) P.ops.push_back(mkh(OP_visit_heap, hs, -1, g.below(1000)));
  }
  for (int h = -1; h < nh; h++) P.ops.push_back(mkh(OP_visit_heap, h, -1, g.below(1000)));
  if (g.chance(0.3)) { P.ops.push_back(mkh(OP_heap_delete, 1)); P.ops.push_back(mkh(OP_visit_heap, -1, -1, g.below(1000))); }
  P.ops.push_back(mk(OP_verify_all));
}

// an arena with more than 64 blocks: abandoned segments beyond the first bitmap field, with holes in the abandoned bitmap
static void fam_c12_bigarena(G& g, Plan& p) {
  set_env(p, "ARENA_RESERVE", g.pick({std::string("4GiB"), std::string("3GiB")}));
  set_env(p, "VISIT_ABANDONED", 1);
  set_env(p, "PURGE_DELAY", g.pick({-1, 10, 100}));
  int nt = 3 + (int)g.below(3);
  int total = 66 + (int)g.below(40);
  p.nslots = total + 8; p.progs.resize((size_t)nt);
  p.sample_verify = false;
  Program& P0 = p.progs[0];
  for (int t = 1; t < nt; t++) P0.ops.push_back(mk(OP_spawn, t));
  // every object is a huge block in its own segment (one arena block); the allocating thread is chosen per object so that
  // abandoned and still-owned (main) segments alternate irregularly in the arena bitmap
  for (int i = 0; i < total; i++) {
    int t = (int)g.below((uint64_t)nt);
    Op o = mk(OP_malloc, i, 17 * MiB + g.below(6 * MiB)); o.flags = OPF_NO_FILL;
    p.progs[(size_t)t].ops.push_back(o);
    if (t != 0) p.progs[(size_t)t].ops.push_back(mk(OP_barrier, 100 + i, 2)), P0.ops.push_back(mk(OP_barrier, 100 + i, 2));   // allocation order = slot order
  }
  for (int t = 1; t < nt; t++) P0.ops.push_back(mk(OP_join, t));
  // main frees some of its own and some abandoned ones: holes
  for (int i = 0; i < total; i++) if (g.chance(0.25)) P0.ops.push_back(mk(OP_free, i));
  P0.ops.push_back(mk(OP_census));
  P0.ops.push_back(mk(OP_visit_abandoned, -1, g.below(1000)));
  P0.ops.push_back(mk(OP_verify_all));
  P0.ops.push_back(mk(OP_free_all));
}

// remote frees that have been collected by the owner before the walk
static void fam_c12_remote(G& g, Plan& p) {
  int nt = 2 + (int)g.below(2);
  p.nslots = 300; p.progs.resize((size_t)nt); Program& P0 = p.progs[0];
  size_t req = class_req(g, 44); int n = 40 + (int)g.below(200);
  int hs = g.chance(0.5) ? 0 : -1; if (hs == 0) P0.ops.push_back(mkh(OP_heap_new, 0));
  for (int i = 0; i < n; i++) { Op o = mk(OP_malloc, i, req); o.hslot = hs; P0.ops.push_back(o); }
  spawn_all(p, nt, true, g);
  for (int i = 0; i < n; i++) if (g.chance(0.6)) p.progs[(size_t)(1 + g.below((uint64_t)nt - 1))].ops.push_back(mk(OP_free, i));
  for (int i = 0; i < 20; i++) P0.ops.push_back(g.chance(0.5) ? mk(OP_free, (int)g.below((uint64_t)n)) : mkh(OP_heap_collect, hs, -1, 0));
  for (int t = 1; t < nt; t++) P0.ops.push_back(mk(OP_join, t));
  P0.ops.push_back(mkh(OP_heap_collect, hs, -1, g.below(2)));     // the property's precondition: no pending cross-thread frees
  P0.ops.push_back(mkh(OP_visit_heap, hs, -1, g.below(1000)));
  P0.ops.push_back(mk(OP_verify_all));
}


// ---------------------------------------------------------------------------------
// C07: base workloads for the fault enumeration (deterministic per seed), and random multi-fault plans
// ---------------------------------------------------------------------------------
static void c07_tail(G& g, Plan& p, Program& P0) {
  // after the faults: the OS grants everything again; a fixed probe sequence must succeed and everything is given back
  P0.ops.push_back(mk(OP_heal_os));
  size_t probes[] = {48, 3000, 40 * KiB, 300 * KiB, 5 * MiB, 40 * MiB};
  int s0 = p.nslots - 8;
  for (int i = 0; i < 6; i++) { Op o = mk(i == 1 ? OP_zalloc : OP_malloc, s0 + i, probes[i]); o.flags = OPF_MUST_SUCCEED; P0.ops.push_back(o); }
  P0.ops.push_back(mk(OP_verify_all));
  P0.ops.push_back(mk(OP_free_all));
  P0.ops.push_back(mk(OP_giveback_check, -1, 4));
  (void)g;
}


// OS refusals while a thread starts: the first allocator call of a fresh thread (of any kind: a free of somebody else's block,
// possibly in an abandoned segment, an allocation, a heap operation) runs with the OS refusing memory, so the thread's own
// heap / metadata cannot be created; afterwards the OS grants everything again and the thread carries on
static void fam_c07_threadstart(G& g, Plan& p) {
  if (g.chance(0.5)) set_env(p, "ABANDONED_RECLAIM_ON_FREE", 1);
  if (g.chance(0.2)) set_env(p, "DISALLOW_ARENA_ALLOC", 1);
  if (g.chance(0.2)) set_env(p, "ARENA_EAGER_COMMIT", 0);
  p.cfg.strategy = g.chance(0.6) ? ST_NONE : ST_RANDOM; p.cfg.switch_p = 0.01; p.cfg.spurious_p = 0; p.cfg.entropy_fail = (int)g.below(2);
  const bool keeper = g.chance(0.6);     // a thread that stays alive and so holds the cached thread metadata of the leaver
  const int nfresh = 1 + (int)g.below(2);
  const int nt = 2 + (keeper ? 1 : 0) + nfresh;
  p.nslots = 80; p.progs.resize((size_t)nt);
  Program& P0 = p.progs[0]; Program& L = p.progs[1];
  std::vector<size_t> cls; for (int i = 0; i < 3; i++) cls.push_back(class_req(g, 44));
  int n = 6 + (int)g.below(20);
  for (int i = 0; i < n; i++) L.ops.push_back(mk(OP_malloc, i, g.chance(0.8) ? cls[g.below(3)] : 100 * KiB + g.below(900 * KiB)));
  L.explicit_done = g.chance(0.5);
  for (int i = 0; i < 6; i++) P0.ops.push_back(mk(OP_malloc, 40 + i, cls[g.below(3)]));      // blocks of a live owner (main) as well
  P0.ops.push_back(mk(OP_spawn, 1)); P0.ops.push_back(mk(OP_join, 1));
  int next = 2;
  if (keeper) { Program& K = p.progs[(size_t)next]; if (g.chance(0.7)) K.ops.push_back(mk(OP_thread_init)); else K.ops.push_back(mk(OP_malloc, 60, 64));    // initialises the thread (takes the cached metadata); an allocation would also adopt the abandoned segment
                K.ops.push_back(mk(OP_barrier, 8, 2)); K.ops.push_back(mk(OP_barrier, 7, 2)); K.ops.push_back(mk(OP_free, 60));
                P0.ops.push_back(mk(OP_spawn, next)); P0.ops.push_back(mk(OP_barrier, 8, 2)); next++; }     // the keeper has started (and taken the cached metadata) before the fresh threads do
  for (int f = 0; f < nfresh; f++, next++) {
    Program& F = p.progs[(size_t)next];
    // first call under refusal
    Op first; int k = (int)g.below(10);
    if (k < 4) first = mk(OP_free, (int)g.below((uint64_t)n));                      // block of the terminated thread (abandoned segment)
    else if (k < 5) first = mk(OP_free, 40 + (int)g.below(6));                      // block of the live main thread
    else if (k < 7) first = mk(g.chance(0.3) ? OP_zalloc : OP_malloc, 62 + f, g.chance(0.7) ? cls[g.below(3)] : 300 * KiB);
    else if (k < 8) first = mk(OP_realloc, (int)g.below((uint64_t)n), cls[g.below(3)] + 64);
    else if (k < 9) first = mkh(OP_heap_new, 0);
    else first = mk(OP_collect, -1, g.below(2));
    { OpFault fl; fl.kind = g.chance(0.7) ? (int)OS_MMAP : -1; fl.nth = g.pick({0, 0, 0, 1, 2}); fl.persistent = g.chance(0.8); if (g.build == "DBG" && fl.kind != OS_MMAP) fl.kind = OS_MMAP; first.faults.push_back(fl); first.flags |= OPF_MAY_FAIL; }
    F.ops.push_back(first);
    int more = (int)g.below(5);
    for (int i = 0; i < more; i++) { Op o = g.chance(0.5) ? mk(OP_free, (int)g.below((uint64_t)n)) : mk(OP_malloc, 64 + f * 6 + i, cls[g.below(3)]); o.flags |= OPF_MAY_FAIL; F.ops.push_back(o); }
    F.ops.push_back(mk(OP_heal_os));
    for (int i = 0; i < 4; i++) { Op o = mk(OP_malloc, 70 + f * 4 + i, i == 3 ? 200 * KiB : cls[g.below(3)]); o.flags = OPF_MUST_SUCCEED; F.ops.push_back(o); }
    F.ops.push_back(mk(OP_verify_all));
    F.explicit_done = g.chance(0.5);
    P0.ops.push_back(mk(OP_spawn, next)); P0.ops.push_back(mk(OP_join, next));
  }
  if (keeper) { P0.ops.push_back(mk(OP_barrier, 7, 2)); P0.ops.push_back(mk(OP_join, 2)); }
  c07_tail(g, p, P0);
}

static void fam_c07_base(G& g, Plan& p) {
  int variant = (int)(p.seed % 20); if (variant >= 12) variant -= 10;      // 0..9 as before, 10: huge churn, 11: huge churn on lazily committed arenas
  const bool lazy_exit = (variant == 5 && ((p.seed / 20) % 2) == 1);   // thread exit + lazily committed memory: reclaimed spans need a commit
  p.cfg.strategy = ST_NONE; p.cfg.harness_p = 0; p.cfg.spurious_p = 0; p.cfg.tick_ns = 0;
  p.cfg.place_policy = 0; p.cfg.madv_free_mode = 1; p.cfg.overcommit = 0; p.cfg.thp_einval = 0; p.cfg.entropy_fail = 0;
  p.env.clear();
  p.expect_no_null = true;
  p.nslots = 120; p.progs.resize(variant == 5 ? 2 : 1);
  Program& P0 = p.progs[0];
  if (variant == 6) set_env(p, "ARENA_RESERVE", "64MiB");
  if (lazy_exit) { set_env(p, "ARENA_RESERVE", "0"); set_env(p, "EAGER_COMMIT", 0); }
  if (variant == 7) p.cfg.overcommit = 2;
  if (variant == 8) set_env(p, "ARENA_EAGER_COMMIT", 0);
  if (variant == 9) set_env(p, "EAGER_COMMIT", 0);
  if (g.chance(0.3)) set_env(p, "PURGE_DELAY", 0);
  if (variant == 11) set_env(p, "ARENA_EAGER_COMMIT", 0);
  if (variant >= 10) {
    // huge churn: segment-sized blocks are allocated, freed and allocated again in the same arena memory, so that whatever an OS
    // refusal leaves behind when a segment is set up or torn down is met by the next one
    int n = 6 + (int)g.below(10);
    for (int i = 0; i < n; i++) {
      int slot = (int)g.below(4); int k = (int)g.below(10);
      if (k < 4) P0.ops.push_back(mk(OP_free, slot));
      else if (k < 5) P0.ops.push_back(mk(OP_realloc, slot, 17 * MiB + g.below(80 * MiB)));
      else P0.ops.push_back(mk(g.chance(0.2) ? OP_zalloc : OP_malloc, slot, g.chance(0.8) ? 17 * MiB + g.below(80 * MiB) : 1 * MiB + g.below(15 * MiB)));
      if (g.chance(0.15)) P0.ops.push_back(mk(OP_collect, -1, g.below(2)));
    }
    c07_tail(g, p, P0);
    return;
  }
  int n = 30 + (int)g.below(70);
  for (int i = 0; i < n; i++) {
    int slot = (int)g.below(100); int k = (int)g.below(100);
    size_t sz;
    switch (variant) {
      case 0: sz = gen_size(g, SM_SMALL | SM_BOUNDARY); break;
      case 1: sz = 200; break;
      case 2: sz = gen_size(g, SM_MEDIUM | SM_LARGE); break;
      case 3: sz = (i % 7 == 0) ? gen_size(g, SM_HUGE) : gen_size(g, SM_SMALL | SM_MEDIUM); break;
      case 4: sz = 1 + g.below(2 * MiB); break;
      default: sz = gen_size(g, SM_SMALL | SM_MEDIUM | SM_LARGE | ((i % 11) == 0 ? SM_HUGE : 0)); break;
    }
    Op o;
    if (variant == 1) o = (i < n * 2 / 3) ? mk(OP_malloc, i % 100, sz) : mk(OP_free, (i * 7) % 100);
    else if (k < 30) o = mk(OP_free, slot);
    else if (k < 36) o = mk(OP_realloc, slot, sz);
    else if (k < 40) o = mk(OP_collect, -1, g.below(2));
    else if (k < 43) o = mk(OP_advance, -1, 11);
    else if (variant == 4 && (i % 5) == 0) o = mk(OP_malloc_aligned, slot, sz, (size_t)1 << (25 + g.below(3)));
    else o = mk(g.chance(0.15) ? OP_zalloc : OP_malloc, slot, sz);
    P0.ops.push_back(o);
    if (variant == 5 && i == n / 3) P0.ops.push_back(mk(OP_spawn, 1));
    if (variant == 5 && i == 2 * n / 3) P0.ops.push_back(mk(OP_join, 1));
  }
  if (variant == 5) { Program& P1 = p.progs[1]; P1.explicit_done = g.chance(0.5); for (int i = 0; i < 30; i++) { int slot = (int)g.below(100); P1.ops.push_back(g.chance(0.55) ? mk(OP_malloc, slot, gen_size(g, SM_SMALL | SM_MEDIUM | SM_LARGE)) : mk(OP_free, slot)); } }
  c07_tail(g, p, P0);
}

static void fam_c07_random(G& g, Plan& p) {
  p.cfg.madv_free_mode = (int)g.below(3);
  int nt = g.chance(0.3) ? 2 : 1;
  p.nslots = 120; p.progs.resize((size_t)nt);
  Program& P0 = p.progs[0];
  if (nt > 1) P0.ops.push_back(mk(OP_spawn, 1));
  int mix = SM_SMALL | SM_BOUNDARY | SM_MEDIUM | (g.chance(0.6) ? SM_LARGE : 0) | (g.chance(0.4) ? SM_HUGE : 0);
  for (int t = 0; t < nt; t++) {
    Program& P = p.progs[(size_t)t]; int n = 30 + (int)g.below(100);
    bool persist_on = false;
    for (int i = 0; i < n; i++) {
      int slot = (int)g.below(100); int k = (int)g.below(100); Op o;
      if (k < 30) o = mk(g.chance(0.7) ? OP_free : OP_free_size, slot);   // not mi_cfree: it ignores pointers it cannot look up (segment map allocation may have been refused)
      else if (k < 38) o = gen_realloc(g, slot, mix & ~SM_HUGE, 0, false);
      else if (k < 42) o = mk(OP_collect, -1, g.below(2));
      else if (k < 45) o = mk(OP_advance, -1, g.pick<uint64_t>({1, 11, 200}));
      else if (k < 47 && persist_on) { o = mk(OP_heal_os); persist_on = false; }
      else o = gen_alloc(g, slot, mix, 0, true);
      if (g.chance(0.08) && o.code != OP_heal_os) {
        OpFault f; f.kind = g.pick({(int)OS_MMAP, (int)OS_MMAP, (int)OS_MPROTECT_RW, (int)OS_MPROTECT_NONE, (int)OS_MADV_DONTNEED, (int)OS_MADV_FREE, (int)OS_MUNMAP, -1});
        if (g.build == "DBG" && f.kind != OS_MMAP) f.kind = OS_MMAP;     // the debug build asserts on a failing decommit by design
        f.nth = (int)g.below(3); f.err = (f.kind == OS_MADV_FREE && g.chance(0.5)) ? 11 /*EAGAIN*/ : 12;
        f.persistent = g.chance(0.2); if (f.persistent) persist_on = true;
        o.faults.push_back(f); o.flags |= OPF_MAY_FAIL;
      }
      P.ops.push_back(o);
    }
  }
  if (nt > 1) P0.ops.push_back(mk(OP_join, 1));
  c07_tail(g, p, P0);
}


// ---------------------------------------------------------------------------------
// C14: concurrent arena claims
// ---------------------------------------------------------------------------------
static void fam_c14_arena(G& g, Plan& p) {
  size_t B = g.pick<size_t>({40, 64, 66, 70, 128, 130});       // 64 / 128: the last bitmap field is full to its last bit
  // giant: an arena of 4-6 bitmap fields and objects of more than 64 blocks (2 GiB), whose claims span three or more fields (the
  // intermediate fields are taken and rolled back whole)
  // (not in the debug build: its reset path clears the whole range by hand, gigabytes of real memory for one purge under PURGE_DECOMMITS=0)
  const bool giant = g.chance(0.15) && g.build != "DBG";
  if (giant) { B = g.pick<size_t>({200, 256, 260, 330}); p.cfg.wall_limit_s = 120; }
  int ngiant[8] = {0, 0, 0, 0, 0, 0, 0, 0};
  const bool refusals = g.chance(0.3);      // "a request that fails ... leaves nothing reserved": some commits of freshly claimed ranges are refused by the OS
  long delay = g.pick({0, 1, 10, 10, -1});
  set_env(p, "PURGE_DELAY", delay); set_env(p, "ARENA_PURGE_MULT", g.pick({1, 10}));
  int nt = 2 + (int)g.below(3);
  p.nslots = 60; p.progs.resize((size_t)nt);
  p.sample_verify = true;
  Program& P0 = p.progs[0];
  if (g.chance(0.4)) {   // preempt inside the arena's claim / release / purge sequences and around their OS calls
    p.cfg.strategy = ST_TARGETED; p.cfg.hot_p = g.pick({0.3, 0.7}); p.cfg.switch_p = 0.0;
    if (g.chance(0.5)) p.cfg.hot_funcs = {"os_call", "_mi_arena_free", "mi_arena_schedule_purge", "mi_arena_purge", "mi_arena_try_purge", "_mi_bitmap_unclaim_across", "mi_arena_try_alloc_at", "_mi_bitmap_try_claim", "mi_arenas_try_purge"};
    else { p.cfg.hot_funcs = {"mi_bitmap_try_find_claim_field_across", "_mi_bitmap_try_find_from_claim_across", "_mi_bitmap_try_find_claim_field", "_mi_bitmap_unclaim_across", "mi_bitmap_mask_across"}; p.cfg.hold_steps = g.pick<uint64_t>({0, 50, 500}); }   // the claim / roll-back sequences of the bitmap itself
  }
  if (giant && g.chance(0.7)) {   // two giant claims over the same fields at once: one is stalled inside its claim / roll-back while the other completes a whole allocate-and-free
    p.cfg.strategy = ST_TARGETED; p.cfg.hot_p = g.pick({0.3, 0.7}); p.cfg.switch_p = 0.0; p.cfg.hold_steps = g.pick<uint64_t>({300, 2000, 10000});
    p.cfg.hot_funcs = {"mi_bitmap_try_find_claim_field_across", "_mi_bitmap_try_find_from_claim_across", "_mi_bitmap_unclaim_across", "mi_bitmap_mask_across"};
  }
  {
    uint64_t d = 0;
    if (!giant && g.chance(0.15)) { d = g.chance(0.5) ? 1 : (2 | (g.chance(0.3) ? 4 : 0) | (g.chance(0.3) ? 8 : 0)); if (g.chance(0.85)) p.cfg.hugetlb = 2; if (d == 1) set_env(p, "ALLOW_LARGE_OS_PAGES", 1); }   // pinned arena of large / huge OS pages
    // donated: the program hands the memory over itself, segment-aligned and not zero-initialised (then the arena keeps no record of dirty
    // blocks, and with 64 / 128 blocks its in-use bitmap has no spare bits behind the last block)
    if (!giant && d == 0 && g.chance(0.25)) P0.ops.push_back(mk(OP_manage_arena, 0, B * 32 * MiB, (g.chance(0.6) ? 1 : 0) | 2 | (g.chance(0.2) ? 4 : 0), 0));
    else P0.ops.push_back(mk(OP_reserve_arena, 0, B * 32 * MiB, giant ? 0 : g.below(2), 1 /*exclusive*/, d));
  }
  for (int t = 1; t < nt; t++) P0.ops.push_back(mk(OP_spawn, t));
  for (int t = 0; t < nt; t++) {
    Program& P = p.progs[(size_t)t]; if (t) P.explicit_done = g.chance(0.5);
    P.ops.push_back(mkh(OP_heap_new_in_arena, 0, 0));
    int n = 10 + (int)g.below(40);
    for (int i = 0; i < n; i++) {
      int slot = (int)g.below((uint64_t)p.nslots); int k = (int)g.below(100);
      if (k < 40) P.ops.push_back(mk(OP_free, slot));
      else if (k < 46) P.ops.push_back(mk(OP_advance, -1, g.pick<uint64_t>({1, 11, 101, 200})));
      else if (k < 52) P.ops.push_back(mk(OP_collect, -1, 0));
      else {
        int c = (int)g.below(10); if (B > 64 && g.chance(0.3)) c = 9; size_t sz = c < 4 ? 17 * MiB + g.below(10 * MiB) : c < 6 ? 40 * MiB + g.below(20 * MiB) : 70 * MiB + g.below(130 * MiB);
        if (giant && ngiant[t] < 4 && g.chance(t < 2 ? 0.5 : 0.1)) { sz = (65 + g.below(90)) * 32 * MiB - g.below(16 * MiB); ngiant[t]++; }
        Op o = mk(OP_malloc, slot, sz); o.hslot = 0; o.flags = OPF_MAY_FAIL | (sz > 512 * MiB ? OPF_NO_FILL : 0);
        if (refusals && g.chance(0.2)) { OpFault f; f.kind = OS_MPROTECT_RW; f.nth = 0; f.persistent = g.chance(0.5); o.faults.push_back(f); }    // the commit of the claimed range is refused: the claim is given back
        P.ops.push_back(o);
      }
    }
  }
  for (int t = 1; t < nt; t++) P0.ops.push_back(mk(OP_join, t));
  P0.ops.push_back(mk(OP_verify_all));
  P0.ops.push_back(mk(OP_free_all));
  if (refusals) P0.ops.push_back(mk(OP_heal_os));
  P0.ops.push_back(mk(OP_arena_fill_check, 0, g.below(2)));
}

// ---------------------------------------------------------------------------------
// C15: arena-bound heaps and exclusive arenas
// ---------------------------------------------------------------------------------
static void fam_c15_arenas(G& g, Plan& p) {
  if (g.chance(0.1)) {
    // edge: donated memory of exactly 64 (or 128) arena blocks, so that the in-use bitmap has no spare bits behind the last block, filled with
    // multi-block objects until the free tail is shorter than the next request: the answer must be NULL, never memory past the end
    p.nslots = 40; p.progs.resize(1); Program& P = p.progs[0];
    const size_t blocks = g.pick<size_t>({64, 64, 128});
    P.ops.push_back(mk(OP_manage_arena, 0, blocks * 32 * MiB, (g.chance(0.6) ? 1 : 0) | (g.chance(0.7) ? 2 : 0) | (g.chance(0.3) ? 4 : 0), 0));     // segment-aligned start: no block is lost to alignment; often committed (nothing stops a block that runs past the end); mostly exclusive; mostly not zero
    P.ops.push_back(mkh(OP_heap_new_in_arena, 0, 0));
    int n = 8 + (int)g.below(14);
    for (int i = 0; i < n; i++) {
      if (g.chance(0.2)) { P.ops.push_back(mk(OP_free, (int)g.below(30))); continue; }
      size_t sz = g.chance(0.6) ? (3 + g.below(25)) * 32 * MiB - g.below(20 * MiB) : 40 * MiB + g.below(120 * MiB);
      Op o = mk(OP_malloc, (int)g.below(30), sz); o.hslot = 0; o.flags = OPF_MAY_FAIL | OPF_NO_FILL; P.ops.push_back(o);
    }
    p.nslots = 80;
    for (int i = 0; i < 45; i++) { Op o = mk(OP_malloc, 30 + i, (3 + g.below(12)) * 32 * MiB - g.below(8 * MiB)); o.hslot = 0; o.flags = OPF_MAY_FAIL | OPF_NO_FILL; P.ops.push_back(o); }   // more than fits: the tail gets shorter than the requests
    P.ops.push_back(mk(OP_verify_all));
    return;
  }
  if (g.chance(0.4)) set_env(p, "ABANDONED_RECLAIM_ON_FREE", 1);
  if (g.chance(0.3)) set_env(p, "MAX_SEGMENT_RECLAIM", 100);
  if (g.chance(0.15)) set_env(p, "DISALLOW_ARENA_ALLOC", 1);
  int nt = 1 + (int)g.below(3);
  p.nslots = 160; p.progs.resize((size_t)nt);
  Program& P0 = p.progs[0];
  int narenas = 1 + (int)g.below(2);
  bool excl[2];
  for (int a = 0; a < narenas; a++) {
    excl[a] = g.chance(0.7);
    if (g.chance(0.5)) P0.ops.push_back(mk(OP_reserve_arena, a, (64 + 32 * g.below(4)) * MiB, g.below(2), excl[a] ? 1 : 0));
    else P0.ops.push_back(mk(OP_manage_arena, a, (64 + 32 * g.below(3)) * MiB + 4096 * g.below(2000), (g.chance(0.6) ? 1 : 0) | (excl[a] ? 2 : 0) | (g.chance(0.3) ? 4 : 0), 4096 * g.below(3000)));
  }
  for (int t = 1; t < nt; t++) P0.ops.push_back(mk(OP_spawn, t));
  int mix = SM_SMALL | SM_BOUNDARY | SM_MEDIUM | (g.chance(0.6) ? SM_LARGE : 0);
  for (int t = 0; t < nt; t++) {
    Program& P = p.progs[(size_t)t]; if (t) P.explicit_done = g.chance(0.5);
    for (int a = 0; a < narenas; a++) P.ops.push_back(mkh(OP_heap_new_in_arena, a, a));
    int n = 30 + (int)g.below(120);
    for (int i = 0; i < n; i++) {
      int slot = (int)g.below(150); int k = (int)g.below(100);
      if (k < 30) P.ops.push_back(mk(OP_free, slot));
      else if (k < 34) P.ops.push_back(mk(OP_collect, -1, g.below(2)));
      else if (k < 36) P.ops.push_back(mk(OP_check_owner, slot));
      else if (k < 37) { int a = (int)g.below((uint64_t)narenas); P.ops.push_back(mkh(OP_heap_delete, a)); P.ops.push_back(mkh(OP_heap_new_in_arena, a, a)); }   // the bound heap goes away while its blocks stay live; the default heap must not inherit arena memory
      else if (k < 40) { Op o = mk(OP_realloc, slot, gen_size(g, mix)); o.hslot = g.chance(0.5) ? (int)g.below((uint64_t)narenas) : -1; o.flags = OPF_MAY_FAIL; P.ops.push_back(o); }
      else {
        Op o = mk(g.chance(0.1) ? OP_zalloc : OP_malloc, slot, g.chance(0.1) ? 17 * MiB + g.below(30 * MiB) : gen_size(g, mix));
        if (g.chance(0.5)) { o.hslot = (int)g.below((uint64_t)narenas); o.flags = OPF_MAY_FAIL; }    // bound heap: NULL when its arena is full
        P.ops.push_back(o);
      }
    }
    if (t == 0 && g.chance(0.3)) {   // fill the arena: the bound heap must answer NULL, never fall back to the OS
      for (int i = 0; i < 12; i++) { Op o = mk(OP_malloc, 150 + (i % 10), 20 * MiB); o.hslot = 0; o.flags = OPF_MAY_FAIL; P.ops.push_back(o); }
    }
  }
  for (int t = 1; t < nt; t++) P0.ops.push_back(mk(OP_join, t));
  // adoption by the main thread's forced collect, then allocations from main's default heap in the same size classes
  if (g.chance(0.5)) P0.ops.push_back(mk(OP_collect, -1, 1));
  if (g.chance(0.6)) {   // an unbound heap asks for fresh segments again and again: abandoned segments get visited repeatedly
    int nb = 8 + (int)g.below(10);
    for (int i = 0; i < nb; i++) { P0.ops.push_back(mk(OP_free, 140 + (i % 8))); P0.ops.push_back(mk(OP_malloc, 140 + (i % 8), 9 * MiB + g.below(6 * MiB))); }
  }
  for (int i = 0; i < 40; i++) P0.ops.push_back(mk(OP_malloc, 100 + (i % 40), gen_size(g, mix)));
  for (int i = 0; i < 10; i++) P0.ops.push_back(mk(OP_check_owner, (int)g.below(150)));
  P0.ops.push_back(mk(OP_verify_all));
}


// adoption routed by heap tag: a heap that may not adopt itself (mi_heap_new: can be destroyed) or that has another tag asks for
// a fresh segment and reclaims an abandoned one; its pages go to "a heap with the page's tag" of the thread -- which must not be
// a heap bound to an arena the memory does not belong to
static void fam_c15_reclaim_route(G& g, Plan& p) {
  if (g.chance(0.3)) set_env(p, "ABANDONED_RECLAIM_ON_FREE", g.pick({0, 1}));
  if (g.chance(0.3)) set_env(p, "MAX_SEGMENT_RECLAIM", 100);
  int nleave = 1 + (int)g.below(2);
  int nt = 1 + nleave;
  p.nslots = 200; p.progs.resize((size_t)nt);
  Program& P0 = p.progs[0];
  std::vector<size_t> cls; for (int i = 0; i < 3; i++) cls.push_back(class_req(g, 40));
  P0.ops.push_back(mk(OP_reserve_arena, 0, (64 + 32 * g.below(3)) * MiB, g.below(2), 1 /*exclusive*/));
  const int order = (int)g.below(3);      // creation order decides the position in the thread's heap list
  auto mk_bound = [&]() { P0.ops.push_back(mkh(OP_heap_new_in_arena, 0, 0)); };
  auto mk_asker = [&]() { if (g.chance(0.6)) P0.ops.push_back(mkh(OP_heap_new, 1)); else { Op o = mkh(OP_heap_new_ex, 1, -1, 1 + g.below(3), 0); P0.ops.push_back(o); } };
  if (order == 0) { mk_bound(); mk_asker(); } else if (order == 1) { mk_asker(); mk_bound(); } else { mk_bound(); mk_asker(); P0.ops.push_back(mkh(OP_heap_new_in_arena, 2, 0)); }
  for (int t = 1; t <= nleave; t++) P0.ops.push_back(mk(OP_spawn, t));
  for (int t = 1; t <= nleave; t++) {
    Program& P = p.progs[(size_t)t]; P.explicit_done = g.chance(0.5);
    int n = 6 + (int)g.below(30);
    for (int i = 0; i < n; i++) P.ops.push_back(mk(OP_malloc, (t - 1) * 40 + i, cls[g.below(cls.size())]));
    for (int i = 0; i < n / 3; i++) P.ops.push_back(mk(OP_free, (t - 1) * 40 + (int)g.below((uint64_t)n)));
  }
  for (int t = 1; t <= nleave; t++) P0.ops.push_back(mk(OP_join, t));
  if (g.chance(0.3)) {
    // the free route: with reclaim-on-free a thread takes an abandoned segment over when it frees a block in it - into its default heap. Here the
    // default heap is the arena-bound one, and the segments of the threads that left lie outside its arena: they must not be adopted by it
    set_env(p, "ABANDONED_RECLAIM_ON_FREE", 1);
    P0.ops.push_back(mkh(OP_heap_set_default, 0));
    for (int t = 1; t <= nleave; t++) for (int i = 0; i < 3; i++) P0.ops.push_back(mk(OP_free, (t - 1) * 40 + (int)g.below(6)));
    for (int i = 0; i < 60; i++) { Op o = mk(OP_malloc, 120 + i, cls[g.below(cls.size())]); o.hslot = g.chance(0.5) ? 0 : -1; o.flags = OPF_MAY_FAIL; P0.ops.push_back(o); }   // -1: the default-heap API, i.e. the bound heap as well
    for (int i = 0; i < 12; i++) P0.ops.push_back(mk(OP_check_owner, (int)g.below(80)));
    P0.ops.push_back(mk(OP_verify_all));
    return;
  }
  // the asking heap needs fresh segments: it reclaims
  int nb = 3 + (int)g.below(8);
  for (int i = 0; i < nb; i++) { Op o = mk(OP_malloc, 100 + i, (g.chance(0.6) ? 9 : 3) * MiB + g.below(4 * MiB)); o.hslot = 1; P0.ops.push_back(o); if (g.chance(0.4)) P0.ops.push_back(mk(OP_check_owner, (int)g.below(80))); }
  // now the bound heap allocates in the classes of the adopted pages: everything it returns must lie in its arena
  for (int i = 0; i < 60; i++) { Op o = mk(OP_malloc, 120 + i, cls[g.below(cls.size())]); o.hslot = (order == 2 && g.chance(0.5)) ? 2 : 0; o.flags = OPF_MAY_FAIL; P0.ops.push_back(o); }
  for (int i = 0; i < 12; i++) P0.ops.push_back(mk(OP_check_owner, (int)g.below(80)));
  P0.ops.push_back(mk(OP_verify_all));
}

// ---------------------------------------------------------------------------------
// C17: hardened builds detect misuse
// ---------------------------------------------------------------------------------
static void fam_c17_misuse(G& g, Plan& p) {
  if (g.chance(0.12)) {
    // the first free comes from another thread (the block waits in its page's list of remotely freed blocks, possibly behind others), the
    // second one from the owner before it has collected that list: a double free of a thread-local block like any other
    p.nslots = 64; p.progs.resize(2); p.cfg.spurious_p = 0;
    Program& P = p.progs[0]; Program& Q = p.progs[1];
    auto bs = bin_sizes(); size_t b = bs[6 + g.below(38)]; size_t req = g.padded ? b - 8 : b;      // 64 .. 8 KiB
    int k = 3 + (int)g.below(6);
    for (int i = 0; i < k; i++) P.ops.push_back(mk(OP_malloc, i, req));
    // (the very first remote free into a page takes another route - the owning heap's delayed list, encoded with other keys - where a second
    // free is not recognisable; that block is therefore never the victim)
    int victim = (int)g.below((uint64_t)k - 2);
    Q.ops.push_back(mk(OP_free, k - 2));
    { Op o = mk(OP_free, victim); o.flags = OPF_ZOMBIE; Q.ops.push_back(o); }
    int more = (int)g.below((uint64_t)k - 2);      // further remote frees pile up behind it
    for (int i = 0, j = 0; i < k - 2 && j < more; i++) if (i != victim) { Q.ops.push_back(mk(OP_free, i)); j++; }
    P.ops.push_back(mk(OP_spawn, 1)); P.ops.push_back(mk(OP_join, 1));
    { Op o = mk(OP_double_free, -1, 0, 2); P.ops.push_back(o); }      // fire
    for (int i = 0; i < 6; i++) P.ops.push_back(mk(OP_malloc, 20 + i, req));
    P.ops.push_back(mk(OP_verify_all));
    return;
  }
  if (g.chance(0.1)) {
    // stale span: a page of several slices is released while its segment lives on, a one-slice page of a fresh size class is carved from the
    // start of that span, and the link of one of its freed blocks is forged so that it decodes to an address in the slices behind the page
    // (whose bookkeeping still remembers the old page): still not "the same area"
    p.nslots = 40; p.progs.resize(1); p.cfg.spurious_p = 0; Program& P = p.progs[0];
    auto bs = bin_sizes();
    P.ops.push_back(mk(OP_malloc, 0, 100 + g.below(400)));                                   // keeps the segment alive
    int rounds = 1 + (int)g.below(3);
    for (int r = 0; r < rounds; r++) {
      P.ops.push_back(mk(OP_malloc, 1, g.chance(0.7) ? 20000 + g.below(100000) : 200 * KiB + g.below(800 * KiB)));   // medium page (8 slices) or a large one
      P.ops.push_back(mk(OP_free, 1));
      if (g.chance(0.3)) P.ops.push_back(mk(OP_collect, -1, g.below(2)));
      size_t b = bs[10 + 3 * r + g.below(3)]; size_t req = g.padded ? b - 8 : b;              // a class not used before in this plan
      int k = 2 + (int)g.below(4);
      for (int i = 0; i < k; i++) P.ops.push_back(mk(OP_malloc, 10 + 8 * r + i, req));
      P.ops.push_back(mk(OP_corrupt_free_link, 10 + 8 * r + (int)g.below((uint64_t)k - 1), 3 * g.below(300000)));      // a multiple of 3: aimed
    }
    P.ops.push_back(mk(OP_verify_all));
    return;
  }
  int nt = g.chance(0.35) ? 2 : 1;
  p.nslots = 200; p.progs.resize((size_t)nt);
  p.cfg.spurious_p = 0;
  Program& P = p.progs[0];
  int mix = SM_SMALL | SM_BOUNDARY;
  const int bigmix = g.chance(0.4) ? (SM_MEDIUM | SM_LARGE | SM_BOUNDARY) : 0;     // the overflow check is not limited to small blocks
  int kind = (int)g.below(3);
  int n = 40 + (int)g.below(200);
  const bool hugeover = g.chance(0.04);       // a block above 16 MiB is overflowed as the plan's last operation
  // a few size classes so that pages hold several live blocks
  std::vector<size_t> cls; for (int i = 0; i < 3; i++) cls.push_back(class_req(g, 44));
  for (int i = 0; i < n; i++) {
    int slot = (int)g.below(150); int k = (int)g.below(100);
    if (k < 25) P.ops.push_back(mk(OP_free, slot));
    else if (k < 30) P.ops.push_back(gen_realloc(g, slot, mix, 0, false));
    else if (k < 33) P.ops.push_back(mk(OP_collect, -1, g.below(2)));
    else if (k < 41) { Op o = mk(kind == 0 ? OP_double_free : kind == 1 ? OP_overflow_byte : OP_corrupt_free_link, (kind == 1 && nt > 1 && g.chance(0.5)) ? 150 + (int)g.below(40) : slot, g.below(1000000)); if (kind == 0) o.b = g.pick<uint64_t>({0, 1, 1, 2, 2, 4, 4}); if (kind == 1) { o.b = g.pick<uint64_t>({1, 1, 1, 2, 4, 8, 8}); o.c = g.below(2); } P.ops.push_back(o); }
    else if (bigmix && g.chance(0.12)) { int bs = (int)g.below(150); P.ops.push_back(mk(OP_malloc, bs, gen_size(g, bigmix))); if (g.chance(0.6)) P.ops.push_back(mk(OP_overflow_byte, bs, g.below(1000000))); }
    else if (hugeover && i == n - 1) { P.ops.push_back(mk(OP_malloc, 149, 16 * MiB + g.below(24 * MiB))); P.ops.push_back(mk(OP_overflow_byte, 149, g.below(1000000))); }   // last: the run ends with known finding F25
    else P.ops.push_back(mk(g.chance(0.1) ? OP_zalloc : OP_malloc, slot, g.chance(0.12) ? 1 + g.below(7) : g.chance(0.7) ? cls[g.below(cls.size())] : gen_size(g, mix)));
    if (g.chance(0.02)) kind = (int)g.below(3);
  }
  if (nt > 1) { P.ops.insert(P.ops.begin() + (long)(P.ops.size() / 2), mk(OP_spawn, 1)); Program& Q = p.progs[1]; for (int i = 0; i < 40; i++) Q.ops.push_back(g.chance(0.7) ? mk(OP_malloc, 150 + (int)g.below(40), g.chance(0.3) ? 1 + g.below(7) : cls[0]) : mk(OP_free, 150 + (int)g.below(40))); }
  P.ops.push_back(mk(OP_verify_all));
}

// ---------------------------------------------------------------------------------
// registry
// ---------------------------------------------------------------------------------
struct FamilyDef { const char* name; const char* prop; void (*fn)(G&, Plan&); int opt_level; bool multi; };
static const FamilyDef FAMILIES[] = {
  {"c01_random", "C01", fam_c01_random, 1, false},
  {"c01_pagecycle", "C01", fam_c01_pagecycle, 1, false},
  {"c01_spanchurn", "C01", fam_c01_spanchurn, 1, false},
  {"c01_huge", "C01", fam_c01_huge, 1, false},
  {"c01_zerosize", "C01", fam_c01_zerosize, 0, false},
  {"c02_pingpong", "C02", fam_c02_pingpong, 1, true},
  {"c02_ownercollect", "C02", fam_c02_ownercollect, 1, true},
  {"c02_manypushers", "C02", fam_c02_manypushers, 1, true},
  {"c02_hugeremote", "C02", fam_c02_hugeremote, 1, true},
  {"c08_drain", "C08", fam_c08_drain, 1, true},
  {"c08_prodcons", "C08", fam_c08_prodcons, 0, true},
  {"c08_reuse", "C08", fam_c08_reuse, 0, true},
  {"c09_exit", "C09", fam_c09_exit, 0, true},
  {"c09_userheap_adopter", "C09", fam_c09_userheap_adopter, 0, true},
  {"c10_single", "C10", fam_c10_single, 1, false},
  {"c10_concurrent", "C10", fam_c10_concurrent, 1, true},
  {"c11_repeat", "C11", fam_c11_repeat, 0, true},
  {"c18_purge", "C18", fam_c18_purge, 0, false},
  {"c07_base", "C07", fam_c07_base, 0, false},
  {"c07_random", "C07", fam_c07_random, 1, false},
  {"c14_arena", "C14", fam_c14_arena, 0, true},
  {"c05_pagecycle", "C05", fam_c05_pagecycle, 1, false},
  {"c09_adopt_race", "C09", fam_c09_adopt_race, 0, true},
  {"c02_forceabandon", "C02", fam_c02_forceabandon, 0, true},
  {"c15_reclaim_route", "C15", fam_c15_reclaim_route, 0, true},
  {"c11_timed", "C11", fam_c11_timed, 0, false},
  {"c09_collect_race", "C09", fam_c09_collect_race, 0, true},
  {"c07_threadstart", "C07", fam_c07_threadstart, 0, true},
  {"c09_oslist", "C09", fam_c09_oslist, 0, true},
  {"c01_pagequeue", "C01", fam_c01_pagequeue, 1, false},
  {"c01_pageedge", "C01", fam_c01_pageedge, 1, false},
  {"c11_manyarenas", "C11", fam_c11_manyarenas, 0, false},
  {"c11_heapdelete", "C11", fam_c11_heapdelete, 0, true},
  {"c15_arenas", "C15", fam_c15_arenas, 0, true},
  {"c17_misuse", "C17", fam_c17_misuse, 1, true},
  {"c03_pagelife", "C03", fam_c03_pagelife, 1, true},
  {"c03_align", "C03", fam_c03_align, 1, false},
  {"c04_dirty", "C04", fam_c04_dirty, 1, true},
  {"c04_grow", "C04", fam_c04_grow, 1, false},
  {"c04_hugeslack", "C04", fam_c04_hugeslack, 0, false},
  {"c05_realloc", "C05", fam_c05_realloc, 1, false},
  {"c06_badreq", "C06", fam_c06_badreq, 1, false},
  {"c06_wellformed", "C06", fam_c06_wellformed, 1, false},
  {"c12_holes", "C12", fam_c12_holes, 1, false},
  {"c12_remote", "C12", fam_c12_remote, 1, true},
  {"c12_bigarena", "C12", fam_c12_bigarena, 0, true},
};

std::vector<std::string> family_list() { std::vector<std::string> v; for (auto& f : FAMILIES) v.push_back(f.name); return v; }

bool family_generate(const std::string& family, uint64_t seed, const std::string& build, Plan& out) {
  for (auto& f : FAMILIES) if (family == f.name) {
    G g(out, mix64(seed, 0xFA51 + (uint64_t)(&f - FAMILIES)), build);
    plan_base(g, out, f.prop, f.name, seed, f.opt_level, f.multi);
    f.fn(g, out);
    for (auto& pr : out.progs) for (size_t i = 0; i < pr.ops.size(); i++) pr.ops[i].uid = (int)i;
    return true;
  }
  return false;
}
