// simos.cc -- the simulated operating system behind mmap/munmap/mprotect/madvise/syscall.
// Every simulated mapping is backed by a real MAP_FIXED_NOREPLACE mapping at the address the
// simulator chose, so the allocator really runs on that memory and a wrong access really faults.
#include "sim.h"
#include <sys/mman.h>
#include <sys/syscall.h>
#include <unistd.h>
#include <errno.h>
#include <fcntl.h>
#include <string.h>
#include <stdio.h>
#include <stdlib.h>
#include <algorithm>

#ifndef MAP_FIXED_NOREPLACE
#define MAP_FIXED_NOREPLACE 0x100000
#endif
#ifndef MADV_FREE
#define MADV_FREE 8
#endif

extern "C" {
void* sim_mmap(void* addr, size_t len, int prot, int flags, int fd, off_t off);
int   sim_munmap(void* addr, size_t len);
int   sim_mprotect(void* addr, size_t len, int prot);
int   sim_madvise(void* addr, size_t len, int advice);
long  sim_syscall(long no, ...);
}

const char* const os_kind_names[OS__KINDS] = {"mmap", "munmap", "mprotect_rw", "mprotect_none", "madv_dontneed", "madv_free", "madv_hugepage", "madv_other"};

SimOs g_os;
os_purge_hook_t g_os_purge_hook = nullptr;

static const uint64_t PAGE = 4096;
static const uint64_t WIN_LO = 1ull << 40;          // 1 TiB
static const uint64_t WIN_HI = 46ull << 40;         // 46 TiB
static const uint64_t BUMP_LO = 33ull << 40;        // un-hinted placements start here
static const uint64_t SEG = 32ull << 20;

struct Region {
  uint64_t start, len; uint32_t id; int vt, op; uint64_t call_no; bool donated; bool unmap_refused; uint64_t hp = 0;   // hp: huge page size of a MAP_HUGETLB mapping (0: ordinary pages)
  std::vector<uint8_t> prot;   // per page: 1 = read/write, 0 = none
};
static std::map<uint64_t, Region> g_regions;     // by start
static uint32_t g_next_region_id = 1;
static uint64_t g_bump = BUMP_LO;
static Rng g_orng, g_entropy;
static std::vector<FaultSpec> g_faults;
static std::vector<int> g_fault_seen;            // matching calls seen so far (per spec, within its op)
static std::vector<int64_t> g_fault_opkey;
static uint64_t g_faults_fired = 0;
static bool g_persist = false; static int g_persist_kind = -1; static int g_persist_err = ENOMEM;
static int g_ctx_op[32];
static uint32_t g_ctx_seq[32];
static bool g_madv_free_unsupported_reported = false;
struct RefusedRW { uint64_t addr, len; int prog, op; };
static std::vector<RefusedRW> g_refused_rw;       // mprotect(READ|WRITE) calls that were refused
const char* (*g_op_name_of)(int prog, int op) = nullptr;

void os_init() {
  g_orng.seed(g_cfg.os_seed ? g_cfg.os_seed : mix64(g_cfg.seed, 0x05));
  g_entropy.seed(g_cfg.entropy_seed ? g_cfg.entropy_seed : mix64(g_cfg.seed, 0xE7));
  for (int i = 0; i < 32; i++) { g_ctx_op[i] = -1; g_ctx_seq[i] = 0; }
  g_bump = BUMP_LO + (g_orng.below(1024) * SEG);
}

void os_set_context(int vt, int op) { if (vt >= 0 && vt < 32) { g_ctx_op[vt] = op; g_ctx_seq[vt] = 0; } }
void os_set_faults(const std::vector<FaultSpec>& f) { g_faults = f; g_fault_seen.assign(f.size(), 0); g_fault_opkey.assign(f.size(), -1000); }
void os_heal() { g_persist = false; }
bool os_any_fault_active() { return g_persist; }
uint64_t os_faults_fired() { return g_faults_fired; }

static inline int cur_vt() { int v = sched_logical(); return v < 0 ? 0 : v; }

// returns errno to inject, or 0
static int fault_check(int kind) {
  sched_os_point(kind);      // another thread may run between the allocator's decision and the OS call taking effect
  int vt = cur_vt(); int op = g_ctx_op[vt & 31];
  if (g_persist && (g_persist_kind == -1 || g_persist_kind == kind)) {
    // EAGAIN means "temporarily": the allocator is entitled to retry until it goes away, so even a persistent fault
    // delivers it at most three times in a row to one thread and then lets one call through
    static int eagain_run[32];
    if (g_persist_err == EAGAIN && ++eagain_run[vt & 31] > 3) { eagain_run[vt & 31] = 0; return 0; }
    g_faults_fired++; return g_persist_err;
  }
  for (size_t i = 0; i < g_faults.size(); i++) {
    FaultSpec& f = g_faults[i];
    if (f.vt != -1 && f.vt != vt) continue;
    if (f.op != -1 && f.op != op) continue;
    if (f.kind != -1 && f.kind != kind) continue;
    int64_t key = ((int64_t)vt << 32) | (uint32_t)op;
    if (g_fault_opkey[i] != key) { g_fault_opkey[i] = key; g_fault_seen[i] = 0; }
    int n = g_fault_seen[i]++;
    if (n == f.nth) {
      g_faults_fired++;
      if (f.persistent) { g_persist = true; g_persist_kind = f.kind; g_persist_err = f.err; }
      return f.err;
    }
  }
  return 0;
}

static void log_call(int kind, uint64_t addr, uint64_t len, uint64_t result, int err, bool injected) {
  int vt = cur_vt();
  OsCall c; c.kind = (uint8_t)kind; c.vt = (int8_t)vt; c.op = g_ctx_op[vt & 31]; c.err = err; c.addr = addr; c.len = len; c.result = result;
  c.vtime_ms = clock_now_ns() / 1000000ull; c.seq_in_op = g_ctx_seq[vt & 31]++; c.injected = injected;
  if (g_os.log.size() < 200000) g_os.log.push_back(c);
  g_os.calls[kind]++;
  if (err != 0) { g_os.refused[kind]++; probe(PR_os_refused); }
  g_event_hash.add(((uint64_t)kind << 60) ^ addr ^ (len << 1) ^ ((uint64_t)(uint32_t)err << 50));
}

// ---- region helpers -------------------------------------------------------------
static Region* region_containing(uint64_t a) {
  auto it = g_regions.upper_bound(a);
  if (it == g_regions.begin()) return nullptr;
  --it;
  Region& r = it->second;
  return (a >= r.start && a < r.start + r.len) ? &r : nullptr;
}

static bool range_free(uint64_t a, uint64_t len) {
  if (a < WIN_LO || a + len > WIN_HI || a + len < a) return false;
  auto it = g_regions.lower_bound(a);
  if (it != g_regions.end() && it->second.start < a + len) return false;
  if (it != g_regions.begin()) { --it; if (it->second.start + it->second.len > a) return false; }
  return true;
}

// is [a,a+len) completely covered by live regions?
static bool range_covered(uint64_t a, uint64_t len) {
  uint64_t p = a, end = a + len;
  while (p < end) {
    Region* r = region_containing(p);
    if (!r) return false;
    p = r->start + r->len;
  }
  return true;
}

template <class F> static void for_pages(uint64_t a, uint64_t len, F f) {
  uint64_t p = a, end = a + len;
  while (p < end) {
    Region* r = region_containing(p);
    if (!r) return;
    uint64_t e = std::min(end, r->start + r->len);
    f(*r, (p - r->start) / PAGE, (e - r->start + PAGE - 1) / PAGE);
    p = e;
  }
}

bool os_in_window(const void* p) { uint64_t a = (uint64_t)(uintptr_t)p; return a >= WIN_LO && a < WIN_HI; }
bool os_range_mapped(const void* p, size_t len) { return range_covered((uint64_t)(uintptr_t)p, len ? len : 1); }
bool os_range_accessible(const void* p, size_t len) {
  uint64_t a = (uint64_t)(uintptr_t)p; if (len == 0) len = 1;
  if (!range_covered(a, len)) return false;
  bool ok = true;
  for_pages(a & ~(PAGE - 1), ((a + len + PAGE - 1) & ~(PAGE - 1)) - (a & ~(PAGE - 1)), [&](Region& r, uint64_t i0, uint64_t i1) { for (uint64_t i = i0; i < i1; i++) if (!r.prot[i]) ok = false; });
  return ok;
}
size_t os_mapped_bytes() { size_t n = 0; for (auto& kv : g_regions) if (!kv.second.donated) n += kv.second.len; return n; }
size_t os_accessible_bytes() {
  size_t n = 0;
  for (auto& kv : g_regions) { if (kv.second.donated) continue; for (uint8_t b : kv.second.prot) if (b) n += PAGE; }
  return n;
}
size_t os_resident_bytes(uint64_t start, uint64_t len) {
  size_t n = 0; static unsigned char vec[1 << 16];
  uint64_t p = start & ~(PAGE - 1), end = (start + len + PAGE - 1) & ~(PAGE - 1);
  while (p < end) {
    Region* r = region_containing(p);
    if (!r) { // skip to the next region
      auto it = g_regions.upper_bound(p); if (it == g_regions.end() || it->second.start >= end) break; p = it->second.start; continue;
    }
    uint64_t e = std::min(end, r->start + r->len);
    if (r->hp) { n += (size_t)(e - p); p = e; continue; }     // explicit huge pages are populated at mmap time and stay resident
    while (p < e) {
      uint64_t chunk = std::min<uint64_t>(e - p, (uint64_t)sizeof(vec) * PAGE);
      if (mincore((void*)p, chunk, vec) == 0) { for (uint64_t i = 0; i < chunk / PAGE; i++) if (vec[i] & 1) n += PAGE; }
      p += chunk;
    }
  }
  return n;
}
std::vector<OsRegion> os_regions() {
  std::vector<OsRegion> v;
  for (auto& kv : g_regions) { const Region& r = kv.second; v.push_back(OsRegion{r.start, r.len, r.id, r.vt, r.op, r.call_no, r.donated}); }
  return v;
}
bool os_is_hugetlb(uint64_t addr) { Region* r = region_containing(addr); return r && r->hp != 0; }
bool os_region_unmap_refused(uint64_t start) { Region* r = region_containing(start); return r && r->unmap_refused; }

const char* os_describe_addr(const void* p, char* buf, size_t n) {
  uint64_t a = (uint64_t)(uintptr_t)p;
  if (a < WIN_LO || a >= WIN_HI) { snprintf(buf, n, "outside the simulated address window"); return buf; }
  Region* r = region_containing(a);
  if (r) {
    uint64_t pg = (a - r->start) / PAGE;
    int w = snprintf(buf, n, "inside mapping #%u [0x%llx,+0x%llx) created by vt%d op%d%s; page is %s", r->id, (unsigned long long)r->start, (unsigned long long)r->len,
             r->vt, r->op, r->donated ? " (donated by harness)" : "", r->prot[pg] ? "read/write" : "PROT_NONE (reserved/decommitted/guard)");
    for (auto& x : g_refused_rw) if (a >= x.addr && a < x.addr + x.len && w > 0 && (size_t)w < n) {
      snprintf(buf + w, n - (size_t)w, "; mprotect(READ|WRITE) of this page (len 0x%llx) was refused earlier in thread %d op %d (%s)", (unsigned long long)x.len, x.prog, x.op, g_op_name_of ? g_op_name_of(x.prog, x.op) : "?");
      break;
    }
  } else {
    auto it = g_regions.upper_bound(a);
    uint64_t prev_end = 0, next_start = 0;
    if (it != g_regions.end()) next_start = it->second.start;
    if (it != g_regions.begin()) { auto jt = it; --jt; prev_end = jt->second.start + jt->second.len; }
    snprintf(buf, n, "unmapped simulated memory (previous mapping ends 0x%llx, next starts 0x%llx)", (unsigned long long)prev_end, (unsigned long long)next_start);
  }
  return buf;
}

static Region& region_add(uint64_t start, uint64_t len, bool rw, bool donated) {
  Region r; r.start = start; r.len = len; r.id = g_next_region_id++; r.vt = cur_vt(); r.op = g_ctx_op[r.vt & 31];
  r.call_no = g_os.calls[OS_MMAP]; r.donated = donated; r.unmap_refused = false;
  r.prot.assign(len / PAGE, rw ? 1 : 0);
  if (!donated) { g_os.mapped_bytes += len; if (g_os.mapped_bytes > g_os.peak_mapped) g_os.peak_mapped = g_os.mapped_bytes; }
  auto res = g_regions.emplace(start, std::move(r));
  return res.first->second;
}

static void region_remove_range(uint64_t a, uint64_t len) {
  uint64_t end = a + len;
  uint64_t p = a;
  while (p < end) {
    Region* r = region_containing(p);
    if (!r) break;
    uint64_t rs = r->start, re = r->start + r->len;
    uint64_t cs = std::max(rs, a), ce = std::min(re, end);
    Region old = std::move(*r);
    g_regions.erase(rs);
    if (!old.donated) g_os.mapped_bytes -= (ce - cs);
    if (cs > rs) {   // left remainder keeps the id
      Region l = old; l.len = cs - rs; l.prot.assign(old.prot.begin(), old.prot.begin() + (long)((cs - rs) / PAGE));
      g_regions.emplace(l.start, std::move(l));
    }
    if (ce < re) {
      Region q = old; q.start = ce; q.len = re - ce; q.prot.assign(old.prot.begin() + (long)((ce - rs) / PAGE), old.prot.end());
      if (cs > rs) q.id = g_next_region_id++;
      g_regions.emplace(q.start, std::move(q));
    }
    p = ce;
  }
}

// ---- placement --------------------------------------------------------------------
static uint64_t choose_address(uint64_t hint, uint64_t len, uint64_t hp = 0) {
  const int pol = g_cfg.place_policy;
  const bool honour = (pol == 0 || pol == 1);
  if (hint != 0 && honour && (hint % (hp ? hp : PAGE)) == 0 && range_free(hint, len)) return hint;
  if (hp) {   // huge page mappings are aligned to their page size
    for (int tries = 0; tries < 64; tries++) {
      uint64_t base = (g_bump + SEG + hp - 1) & ~(hp - 1);
      g_bump = base + len + PAGE * 16;
      if (range_free(base, len)) return base;
    }
    return 0;
  }
  bool unaligned = (pol == 2) || (pol == 1 && g_orng.chance(g_cfg.place_unaligned_p));
  for (int tries = 0; tries < 64; tries++) {
    uint64_t base = (g_bump + SEG - 1) & ~(SEG - 1);
    base += SEG;                                            // a gap before every placement
    if (unaligned) base += PAGE * (1 + g_orng.below(SEG / PAGE - 1));
    g_bump = base + len + PAGE * 16;
    if (range_free(base, len)) return base;
  }
  return 0;
}

extern "C" void* sim_mmap(void* addr, size_t len, int prot, int flags, int fd, off_t off) {
  (void)off;
  if (fd != -1 || !(flags & MAP_ANONYMOUS)) { errno = EINVAL; log_call(OS_MMAP, (uint64_t)(uintptr_t)addr, len, 0, EINVAL, false); return MAP_FAILED; }
  uint64_t l = (len + PAGE - 1) & ~(PAGE - 1);
  if (l == 0) { errno = EINVAL; log_call(OS_MMAP, (uint64_t)(uintptr_t)addr, len, 0, EINVAL, false); return MAP_FAILED; }
  int inj = fault_check(OS_MMAP);
  if (inj) { errno = inj; log_call(OS_MMAP, (uint64_t)(uintptr_t)addr, len, 0, inj, true); return MAP_FAILED; }
  uint64_t hp = 0;
#ifdef MAP_HUGETLB
  if (flags & MAP_HUGETLB) {
    int lg = (flags >> MAP_HUGE_SHIFT) & 0x3f; hp = lg ? (1ull << lg) : (2ull << 20);
    const bool avail = (hp == (2ull << 20) && g_cfg.hugetlb >= 1) || (hp == (1ull << 30) && g_cfg.hugetlb >= 2);
    if (!avail) { errno = ENOMEM; log_call(OS_MMAP, (uint64_t)(uintptr_t)addr, len, 0, ENOMEM, false); return MAP_FAILED; }  // no (such) hugetlbfs pages configured
    l = (len + hp - 1) & ~(hp - 1);       // the kernel rounds the length of a huge page mapping up
  }
#endif
  if (l > (8ull << 40)) { errno = ENOMEM; log_call(OS_MMAP, (uint64_t)(uintptr_t)addr, len, 0, ENOMEM, false); return MAP_FAILED; }   // address-space limit of the simulated machine
  uint64_t base = choose_address((uint64_t)(uintptr_t)addr, l, hp);
  if (base == 0) { errno = ENOMEM; log_call(OS_MMAP, (uint64_t)(uintptr_t)addr, len, 0, ENOMEM, false); return MAP_FAILED; }
  bool rw = (prot & PROT_WRITE) != 0;
  void* p = mmap((void*)base, l, rw ? (PROT_READ | PROT_WRITE) : PROT_NONE, MAP_PRIVATE | MAP_ANONYMOUS | MAP_NORESERVE | MAP_FIXED_NOREPLACE, -1, 0);
  if (p == MAP_FAILED || (uint64_t)(uintptr_t)p != base) {
    int e = errno; if (p != MAP_FAILED) munmap(p, l);
    sim_infra_error("backing mmap at 0x%llx len 0x%llx failed (errno %d)", (unsigned long long)base, (unsigned long long)l, e);
  }
  if ((base % SEG) != 0) probe(PR_unaligned_mmap_trim, 0);
  Region& nr = region_add(base, l, rw, false); nr.hp = hp;
  if (hp) probe(PR_hugetlb_mmap);
  log_call(OS_MMAP, (uint64_t)(uintptr_t)addr, len, base, 0, false);
  return p;
}

extern "C" int sim_munmap(void* addr, size_t len) {
  uint64_t a = (uint64_t)(uintptr_t)addr, l = (len + PAGE - 1) & ~(PAGE - 1);
  if ((a % PAGE) != 0 || l == 0) { errno = EINVAL; log_call(OS_MUNMAP, a, len, 0, EINVAL, false); return -1; }
  int inj = fault_check(OS_MUNMAP);
  if (inj) {
    for_pages(a, l, [&](Region& r, uint64_t, uint64_t) { r.unmap_refused = true; });
    errno = inj; log_call(OS_MUNMAP, a, len, 0, inj, true); return -1;
  }
  { Region* hr = region_containing(a); if (hr && hr->hp && ((a % hr->hp) != 0 || (l % hr->hp) != 0)) { errno = EINVAL; log_call(OS_MUNMAP, a, len, 0, EINVAL, false); return -1; } }   // huge page mappings are unmapped in whole huge pages
  // every page of the range must belong to a live simulated mapping that the allocator obtained itself
  bool ok = os_in_window(addr) && range_covered(a, l);
  if (ok) for_pages(a, l, [&](Region& r, uint64_t, uint64_t) { if (r.donated) ok = false; });
  if (!ok) {
    g_os.foreign_calls++;
    log_call(OS_MUNMAP, a, len, 0, EINVAL, false);
    char d[256]; os_describe_addr(addr, d, sizeof d);
    sim_violation("foreign_os_call", "munmap(0x%llx, 0x%llx) is not (completely) inside memory the allocator mapped: %s", (unsigned long long)a, (unsigned long long)len, d);
  }
  { Region* r0 = region_containing(a); if (r0 && (r0->start != a || r0->len != l)) probe(PR_unaligned_mmap_trim); }
  if (munmap(addr, l) != 0) sim_infra_error("backing munmap failed errno %d", errno);
  region_remove_range(a, l);
  log_call(OS_MUNMAP, a, len, 0, 0, false);
  return 0;
}

extern "C" int sim_mprotect(void* addr, size_t len, int prot) {
  uint64_t a = (uint64_t)(uintptr_t)addr, l = (len + PAGE - 1) & ~(PAGE - 1);
  bool rw = (prot & PROT_WRITE) != 0;
  int kind = rw ? OS_MPROTECT_RW : OS_MPROTECT_NONE;
  if ((a % PAGE) != 0) { errno = EINVAL; log_call(kind, a, len, 0, EINVAL, false); return -1; }
  if (l == 0) { log_call(kind, a, len, 0, 0, false); return 0; }
  int inj = fault_check(kind);
  if (inj) { if (rw && g_refused_rw.size() < 1000) { int v = cur_vt(); g_refused_rw.push_back(RefusedRW{a, l, v, g_ctx_op[v & 31]}); } errno = inj; log_call(kind, a, len, 0, inj, true); return -1; }
  if (!os_in_window(addr) || !range_covered(a, l)) {
    g_os.foreign_calls++;
    log_call(kind, a, len, 0, ENOMEM, false);
    char d[256]; os_describe_addr(addr, d, sizeof d);
    sim_violation("foreign_os_call", "mprotect(0x%llx, 0x%llx, %s) touches memory that is not mapped by the allocator: %s", (unsigned long long)a, (unsigned long long)len, rw ? "RW" : "NONE", d);
  }
  if (!rw && g_os_purge_hook) g_os_purge_hook(kind, a, l);
  if (mprotect(addr, l, rw ? (PROT_READ | PROT_WRITE) : PROT_NONE) != 0) sim_infra_error("backing mprotect failed errno %d", errno);
  for_pages(a, l, [&](Region& r, uint64_t i0, uint64_t i1) { for (uint64_t i = i0; i < i1; i++) r.prot[i] = rw ? 1 : 0; });
  log_call(kind, a, len, 0, 0, false);
  return 0;
}

extern "C" int sim_madvise(void* addr, size_t len, int advice) {
  uint64_t a = (uint64_t)(uintptr_t)addr, l = (len + PAGE - 1) & ~(PAGE - 1);
  int kind = advice == MADV_DONTNEED ? OS_MADV_DONTNEED : advice == MADV_FREE ? OS_MADV_FREE :
#ifdef MADV_HUGEPAGE
             advice == MADV_HUGEPAGE ? OS_MADV_HUGE :
#endif
             OS_MADV_OTHER;
  if ((a % PAGE) != 0) { errno = EINVAL; log_call(kind, a, len, 0, EINVAL, false); return -1; }
  if (kind == OS_MADV_HUGE) {
    int e = g_cfg.thp_einval ? EINVAL : 0;
    if (e) errno = e;
    log_call(kind, a, len, 0, e, false);
    return e ? -1 : 0;        // never forwarded: residency stays page granular
  }
  if (kind == OS_MADV_OTHER) { log_call(kind, a, len, 0, 0, false); return 0; }
  int inj = fault_check(kind);
  if (inj) { errno = inj; log_call(kind, a, len, 0, inj, true); return -1; }
  if (kind == OS_MADV_FREE && g_cfg.madv_free_mode == 3) {
    errno = EINVAL; log_call(kind, a, len, 0, EINVAL, false); g_madv_free_unsupported_reported = true; return -1;
  }
  if (l == 0) { log_call(kind, a, len, 0, 0, false); return 0; }
  if (!os_in_window(addr) || !range_covered(a, l)) {
    g_os.foreign_calls++;
    log_call(kind, a, len, 0, ENOMEM, false);
    char d[256]; os_describe_addr(addr, d, sizeof d);
    sim_violation("foreign_os_call", "madvise(0x%llx, 0x%llx, %s) touches memory that is not mapped by the allocator: %s", (unsigned long long)a, (unsigned long long)len, os_kind_names[kind], d);
  }
  if (kind == OS_MADV_FREE) {
    // a reset (MADV_FREE is only used for that) of memory that is not committed is invalid: the allocator's own rule
    // ("never reset uncommitted memory", src/arena.c:mi_arena_purge, src/segment.c:mi_segment_purge) and C13's "never touches memory it has decommitted"
    uint64_t bad = 0;
    for_pages(a, l, [&](Region& r, uint64_t i0, uint64_t i1) { if (!r.donated) for (uint64_t i = i0; i < i1; i++) if (!r.prot[i] && !bad) bad = r.start + i * PAGE; });
    if (bad) { log_call(kind, a, len, 0, 0, false); sim_violation("reset_uncommitted", "madvise(0x%llx, 0x%llx, MADV_FREE): the allocator resets memory that is not committed (first inaccessible page 0x%llx)", (unsigned long long)a, (unsigned long long)len, (unsigned long long)bad); }
  }
  if (g_os_purge_hook) g_os_purge_hook(kind, a, l);
  { Region* hr = region_containing(a);
    if (hr && hr->hp) {   // hugetlb mapping (Linux >= 5.18 semantics): only huge pages that are covered completely are dropped (and read as zero afterwards)
      probe(PR_hugetlb_madvise);
      uint64_t s0 = (a + hr->hp - 1) & ~(hr->hp - 1), e0 = (a + l) & ~(hr->hp - 1);
      if (e0 > s0 && madvise((void*)s0, e0 - s0, MADV_DONTNEED) != 0) sim_infra_error("backing madvise failed errno %d", errno);
      log_call(kind, a, len, e0 > s0 ? 1 : 0, 0, false);
      return 0;
    } }
  bool discard = true;
  if (kind == OS_MADV_FREE) {
    discard = (g_cfg.madv_free_mode == 1) || (g_cfg.madv_free_mode == 2 && g_orng.chance(0.5));
    probe(discard ? PR_madv_free_discarded : PR_madv_free_kept);
  }
  if (discard) {
    // discarding only makes sense on accessible pages; on PROT_NONE pages the kernel accepts it as well
    if (madvise(addr, l, MADV_DONTNEED) != 0) sim_infra_error("backing madvise failed errno %d", errno);
  }
  log_call(kind, a, len, discard ? 1 : 0, 0, false);
  return 0;
}

// harness-owned memory inside the window (for mi_manage_os_memory): tracked as donated
void* os_harness_map(size_t len, size_t align, size_t misalign, bool accessible) {
  uint64_t l = (len + PAGE - 1) & ~(PAGE - 1);
  if (align < PAGE) align = PAGE;
  for (int tries = 0; tries < 64; tries++) {
    uint64_t base = (g_bump + align - 1) & ~((uint64_t)align - 1);
    base += align + (misalign & ~(PAGE - 1));
    g_bump = base + l + SEG;
    if (!range_free(base - PAGE, l + 2 * PAGE)) continue;
    void* p = mmap((void*)base, l, accessible ? (PROT_READ | PROT_WRITE) : PROT_NONE, MAP_PRIVATE | MAP_ANONYMOUS | MAP_NORESERVE | MAP_FIXED_NOREPLACE, -1, 0);
    if (p == MAP_FAILED) sim_infra_error("harness mmap failed errno %d", errno);
    region_add(base, l, accessible, true);
    return p;
  }
  sim_infra_error("no room for a harness mapping");
}

// ---- syscall(2): files and entropy ----------------------------------------------------
static const long FD_OVERCOMMIT = 100001, FD_URANDOM = 100002;

extern "C" long sim_syscall(long no, ...) {
  va_list ap; va_start(ap, no);
  long a[6]; for (int i = 0; i < 6; i++) a[i] = va_arg(ap, long);
  va_end(ap);
  switch (no) {
    case SYS_open: {
      const char* path = (const char*)a[0];
      if (path && strcmp(path, "/proc/sys/vm/overcommit_memory") == 0) return FD_OVERCOMMIT;
      if (path && strcmp(path, "/dev/urandom") == 0) { if (g_cfg.entropy_fail) { errno = ENOENT; return -1; } return FD_URANDOM; }
      errno = ENOENT; return -1;
    }
    case SYS_read: {
      if (a[0] == FD_OVERCOMMIT) { char* b = (char*)a[1]; if (a[2] >= 2) { b[0] = (char)('0' + g_cfg.overcommit); b[1] = '\n'; return 2; } return 0; }
      if (a[0] == FD_URANDOM) { unsigned char* b = (unsigned char*)a[1]; for (long i = 0; i < a[2]; i++) b[i] = (unsigned char)g_entropy.next(); return a[2]; }
      errno = EBADF; return -1;
    }
    case SYS_close: return 0;
    case SYS_access: errno = ENOENT; return -1;     // one NUMA node
#ifdef SYS_getrandom
    case SYS_getrandom: {
      if (g_cfg.entropy_fail) { errno = ENOSYS; return -1; }
      unsigned char* b = (unsigned char*)a[0]; for (long i = 0; i < a[1]; i++) b[i] = (unsigned char)g_entropy.next();
      return a[1];
    }
#endif
#ifdef SYS_getcpu
    case SYS_getcpu: { if (a[0]) *(unsigned long*)a[0] = 0; if (a[1]) *(unsigned long*)a[1] = 0; return 0; }
#endif
#ifdef SYS_mbind
    case SYS_mbind: return 0;
#endif
    default: break;
  }
  return syscall(no, a[0], a[1], a[2], a[3], a[4], a[5]);
}
