// core.cc -- scheduler (real pthreads, one baton), virtual clock, TLS-key emulation,
// violation/result reporting.  See /verif/DESIGN.md section 4.
#include "sim.h"
#include <pthread.h>
#include <semaphore.h>
#include <signal.h>
#include <stdio.h>
#include <stdlib.h>
#include <string.h>
#include <unistd.h>
#include <errno.h>
#include <time.h>
#include <sys/time.h>
#include <ucontext.h>
extern "C" void __gcov_dump(void) __attribute__((weak));
extern const char* g_sim_build_name;

extern "C" {
struct mi_sim_site_s { const char* file; const char* func; int line; int kind; int id; int flags; };
typedef struct mi_sim_site_s mi_sim_site_t;
enum { MI_SIM_LOAD = 1, MI_SIM_STORE, MI_SIM_XCHG, MI_SIM_FADD, MI_SIM_FSUB, MI_SIM_FAND, MI_SIM_FOR,
       MI_SIM_CAS_STRONG, MI_SIM_CAS_WEAK, MI_SIM_YIELD, MI_SIM_LOCK, MI_SIM_TRYLOCK, MI_SIM_UNLOCK, MI_SIM_HARNESS };
void   mi_sim_point(mi_sim_site_t* site, const char* func, const volatile void* addr);
bool   mi_sim_store_buffer(mi_sim_site_t* site, volatile void* addr, size_t size, uint64_t val);
bool   mi_sim_load_forward(const volatile void* addr, uint64_t* val);
extern int mi_sim_sb_active;
bool   mi_sim_cas_spurious(mi_sim_site_t* site);
void   mi_sim_cas_result(mi_sim_site_t* site, bool success);
size_t mi_sim_tid(void);
void   mi_sim_yield(mi_sim_site_t* site, const char* func);
bool   mi_sim_lock_try_acquire(mi_sim_site_t* site, const char* func, void* lock);
void   mi_sim_lock_acquire(mi_sim_site_t* site, const char* func, void* lock);
void   mi_sim_lock_release(mi_sim_site_t* site, const char* func, void* lock);
int    sim_key_create(pthread_key_t* key, void (*destr)(void*));
int    sim_setspecific(pthread_key_t key, const void* value);
int    sim_key_delete(pthread_key_t key);
int    sim_clock_gettime(clockid_t clk, struct timespec* ts);
}

// site flags
enum { SF_NOPREEMPT = 1, SF_HOT = 2 };

SimConfig g_cfg;
SimStats  g_stats;
Hash64    g_event_hash, g_sched_sig, g_api_hash;
uint64_t  g_probe[PR__COUNT];
uint64_t  g_clock_advanced_ns = 0;
void (*g_result_extra)(JsonOut& o) = nullptr;
const char* (*g_crash_context)() = nullptr;
bool (*g_abort_is_expected)() = nullptr;

const char* const probe_names[PR__COUNT] = {
  "delayed_freeing_observed", "delayed_block_reinserted", "tf_collect_cas_retry", "free_mt_cas_retry",
  "page_to_full", "page_unfull", "page_retired", "page_freed",
  "segment_abandoned", "segment_reclaimed", "reclaim_on_free", "clear_abandoned_lost_race",
  "os_abandoned_list_used", "force_abandon", "bitmap_across_claim", "bitmap_rollback",
  "purge_claim_blocked_alloc", "commit_failed_path", "collect_and_retry", "aligned_overalloc",
  "unaligned_mmap_trim", "madv_free_kept", "madv_free_discarded", "segment_purge_fired",
  "arena_purge_fired", "spurious_cas_injected", "thread_id_reused", "lock_blocked", "yield_switch",
  "heap_absorb", "heap_destroy", "huge_alloc", "huge_remote_reset", "switch_in_free_mt",
  "switch_in_tf_collect", "switch_in_delayed_partial", "switch_in_reclaim", "switch_in_bitmap",
  "realloc_inplace", "realloc_moved", "zero_checked", "visit_checked", "alloc_null",
  "os_refused", "arena_alloc", "os_segment_alloc", "thread_data_cache_hit", "use_delayed_spin",
  "segment_purge_by_time", "arena_purge_by_time", "misuse_detected", "census", "giveback_checked",
  "hugetlb_mmap", "hugetlb_madvise", "pinned_arena", "arenas_8plus",
};

// ---------------------------------------------------------------------------------
// vthreads
// ---------------------------------------------------------------------------------
enum VState { VS_UNUSED = 0, VS_RUNNABLE, VS_BLOCKED, VS_DONE };
enum BlockKind { BK_NONE = 0, BK_LOCK, BK_JOIN, BK_BARRIER, BK_WAIT };
#define MAX_VT 200

struct VThread {
  int       idx;
  size_t    vtid;
  pthread_t th;
  sem_t     sem;
  VState    state;
  int       block_kind;
  void*     block_on;
  bool      yielded;
  bool      wait_timed_out;
  uint64_t  hold_until;         // stalled: not scheduled before this many scheduling points have passed (unless nothing else can run)
  int       cur_op;             // index of the operation of the thread's program that is being executed
  uint64_t  op_draws;           // scheduling decisions drawn inside that operation
  int       passthrough;   // nesting depth
  int64_t   priority;
  uint64_t  steps, call_steps;
  const mi_sim_site_t* last_site;
  int       spurious_run;       // consecutive spurious failures
  const mi_sim_site_t* spurious_site;
  void*     tls_value;
  int       logical;
  struct SbEntry { volatile void* addr; uint64_t val; int size; int ttl; const mi_sim_site_t* site; } sb[4];   // store buffer (FIFO), see mi_sim_store_buffer
  int       sb_n;
  vthread_main_t fn; void* arg;
};

static VThread   g_vt[MAX_VT];
static int       g_nvt = 0;
static int       g_cur = -1;          // baton holder
static bool      g_active = false;
static __thread VThread* tl_cur = nullptr;
static Rng       g_srng;              // scheduling decisions
static uint64_t  g_sb_buffered = 0, g_sb_overtaken = 0;
// Scheduling decisions: one sequential stream (stable_sched = 0) or, by default for generated plans, a value derived from
// (seed, logical thread, operation index, n-th decision inside that operation). The second form keeps the decisions inside
// an operation unchanged when unrelated operations are deleted from the plan, which is what lets the minimiser shrink
// multi-threaded plans; both are pure functions of the plan.
struct VThread;
static uint64_t sched_draw(VThread* t);
void sched_sb_flush();
static inline bool sched_chance(VThread* t, double p) { return (double)(sched_draw(t) >> 11) * (1.0 / 9007199254740992.0) < p; }
static uint64_t  g_clock_ns = 0;
static std::vector<uint64_t> g_pct_change;   // step numbers (sorted)
static size_t    g_pct_next = 0;
static int64_t   g_pct_low = 0;
static int       g_rr_next = 0;
static void (*g_key_destr)(void*) = nullptr;
static bool      g_finishing = false;

struct SimLock { void* addr; int owner; };
static std::vector<SimLock> g_locks;
struct Barrier { int id; int arrived; int generation; };
static std::vector<Barrier> g_barriers;

static std::vector<mi_sim_site_t*> g_sites;
static int g_site_probe[4096];        // probe per site (or -1)
static int g_site_probe_casfail[4096];
static int g_site_probe_switch[4096];

static const char* base_name(const char* f) { const char* b = strrchr(f, '/'); return b ? b + 1 : f; }

static const char* kind_name(int k) {
  static const char* n[] = {"?", "load", "store", "xchg", "fadd", "fsub", "fand", "for", "cas", "casw", "yield", "lock", "trylock", "unlock", "harness"};
  return (k >= 0 && k <= 14) ? n[k] : "?";
}

static bool str_eq(const char* a, const char* b) { return a && b && strcmp(a, b) == 0; }

static void site_register(mi_sim_site_t* s, const char* func) {
  s->func = func;
  g_sites.push_back(s);
  s->id = (int)g_sites.size();
  if (s->id >= 4096) sim_infra_error("too many sites");
  int fl = 0;
  const char* bf = base_name(s->file);
  if (str_eq(bf, "stats.c") || strncmp(func, "mi_stat", 7) == 0 || strncmp(func, "_mi_stat", 8) == 0 ||
      str_eq(func, "mi_atomic_addi64_relaxed") || str_eq(func, "mi_atomic_void_addi64_relaxed") ||
      str_eq(func, "mi_atomic_maxi64_relaxed") || str_eq(func, "mi_stats_merge_from") || str_eq(func, "mi_stat_add") ||
      str_eq(func, "_mi_warning_message") || str_eq(func, "mi_show_error_message") || str_eq(func, "mi_out_buf") ||
      str_eq(func, "mi_out_get_default") || str_eq(func, "_mi_error_message")) {
    fl |= SF_NOPREEMPT;
  }
  for (auto& h : g_cfg.hot_funcs) if (h == func) fl |= SF_HOT;
  s->flags = fl;
  int pr = -1, prc = -1, prs = -1;
  // "this function/site was executed" probes
  if (str_eq(func, "_mi_arena_segment_mark_abandoned") && s->kind == MI_SIM_STORE) pr = PR_segment_abandoned;
  else if (str_eq(func, "mi_segment_reclaim") && s->kind == MI_SIM_STORE) pr = PR_segment_reclaimed;
  else if (str_eq(func, "mi_arena_segment_os_mark_abandoned") && s->kind == MI_SIM_LOCK) pr = PR_os_abandoned_list_used;
  else if (str_eq(func, "mi_bitmap_try_find_claim_field_across") && s->kind == MI_SIM_CAS_STRONG) pr = PR_bitmap_across_claim;
  else if (str_eq(func, "_mi_heap_delayed_free_partial") && s->kind == MI_SIM_CAS_WEAK && s->line > 0) pr = -1;
  if (str_eq(func, "_mi_page_try_use_delayed_free") && s->kind == MI_SIM_YIELD) pr = PR_delayed_freeing_observed;
  if (str_eq(func, "_mi_page_use_delayed_free") && s->kind == MI_SIM_YIELD) pr = PR_use_delayed_spin;
  if (str_eq(func, "mi_arena_purge") ) pr = -1;
  // CAS-failure probes
  if (str_eq(func, "_mi_page_thread_free_collect")) prc = PR_tf_collect_cas_retry;
  if (str_eq(func, "mi_free_block_delayed_mt")) prc = PR_free_mt_cas_retry;
  // switch-inside probes
  if (str_eq(func, "mi_free_block_delayed_mt")) prs = PR_switch_in_free_mt;
  else if (str_eq(func, "_mi_page_thread_free_collect")) prs = PR_switch_in_tf_collect;
  else if (str_eq(func, "_mi_heap_delayed_free_partial")) prs = PR_switch_in_delayed_partial;
  else if (str_eq(func, "mi_segment_reclaim") || str_eq(func, "_mi_arena_segment_clear_abandoned") ||
           str_eq(func, "mi_arena_segment_clear_abandoned_at") || str_eq(func, "_mi_arena_segment_mark_abandoned") ||
           str_eq(func, "_mi_segment_attempt_reclaim")) prs = PR_switch_in_reclaim;
  else if (strncmp(func, "mi_bitmap", 9) == 0 || strncmp(func, "_mi_bitmap", 10) == 0) prs = PR_switch_in_bitmap;
  g_site_probe[s->id] = pr; g_site_probe_casfail[s->id] = prc; g_site_probe_switch[s->id] = prs;
}

// ---------------------------------------------------------------------------------
// result line / violations
// ---------------------------------------------------------------------------------
static int g_result_fd = 1;
static char g_last_msg[512];

std::string JsonOut::esc(const std::string& v) {
  std::string o; o.reserve(v.size() + 8);
  for (unsigned char c : v) {
    if (c == '"' || c == '\\') { o += '\\'; o += (char)c; }
    else if (c == '\n') o += "\\n";
    else if (c < 0x20) { char b[8]; snprintf(b, sizeof b, "\\u%04x", c); o += b; }
    else o += (char)c;
  }
  return o;
}
void JsonOut::key(const char* k) { s += first ? "\"" : ",\""; first = false; s += k; s += "\":"; }
void JsonOut::kv(const char* k, uint64_t v) { key(k); char b[32]; snprintf(b, sizeof b, "%llu", (unsigned long long)v); s += b; }
void JsonOut::kvi(const char* k, int64_t v) { key(k); char b[32]; snprintf(b, sizeof b, "%lld", (long long)v); s += b; }
void JsonOut::kvd(const char* k, double v) { key(k); char b[48]; snprintf(b, sizeof b, "%.6g", v); s += b; }
void JsonOut::kvs(const char* k, const std::string& v) { key(k); s += '"'; s += esc(v); s += '"'; }
void JsonOut::kvraw(const char* k, const std::string& raw) { key(k); s += raw; }

static std::vector<std::string> g_notes;

void sim_note(const char* fmt, ...) {
  if (!g_cfg.trace) return;
  char b[512]; va_list ap; va_start(ap, fmt); vsnprintf(b, sizeof b, fmt, ap); va_end(ap);
  if (g_notes.size() < 20000) g_notes.push_back(b);
}

static void hex64(char* b, size_t n, uint64_t v) { snprintf(b, n, "%016llx", (unsigned long long)v); }

[[noreturn]] static void write_result_and_exit(const char* status, const char* oracle, const char* msg, int code) {
  g_finishing = true; g_active = false;
  JsonOut o;
  o.s = "{";
  o.kvs("status", status);
  if (oracle) o.kvs("oracle", oracle);
  if (msg) o.kvs("msg", msg);
  o.kv("seed", g_cfg.seed);
  o.kvi("vt", tl_cur ? tl_cur->idx : -1);
  if (tl_cur && tl_cur->last_site) {
    char b[256]; snprintf(b, sizeof b, "%s:%s:%d:%s", base_name(tl_cur->last_site->file), tl_cur->last_site->func, tl_cur->last_site->line, kind_name(tl_cur->last_site->kind));
    o.kvs("last_site", b);
  }
  char hb[32];
  hex64(hb, sizeof hb, g_event_hash.h); o.kvs("event_hash", hb);
  hex64(hb, sizeof hb, g_api_hash.h);   o.kvs("api_hash", hb);
  hex64(hb, sizeof hb, g_sched_sig.h);  o.kvs("sched_sig", hb);
  o.kv("steps", g_stats.steps); if (g_cfg.sb_p > 0) { o.kv("sb_buffered", g_sb_buffered); o.kv("sb_overtaken", g_sb_overtaken); } o.kv("switches", g_stats.switches); o.kv("yields", g_stats.yields);
  o.kv("harness_points", g_stats.harness_points); o.kv("spurious", g_stats.spurious); o.kv("lock_blocks", g_stats.lock_blocks);
  o.kv("threads", (uint64_t)g_nvt);
  o.kv("sim_ms", (g_clock_ns - g_cfg.clock_start_ns) / 1000000ull);
  { std::string p = "{"; bool f = true;
    for (int i = 0; i < PR__COUNT; i++) if (g_probe[i]) { char b[96]; snprintf(b, sizeof b, "%s\"%s\":%llu", f ? "" : ",", probe_names[i], (unsigned long long)g_probe[i]); p += b; f = false; }
    p += "}"; o.kvraw("probes", p); }
  { std::string p = "{"; bool f = true;
    for (int i = 0; i < OS__KINDS; i++) if (g_os.calls[i]) { char b[96]; snprintf(b, sizeof b, "%s\"%s\":%llu", f ? "" : ",", os_kind_names[i], (unsigned long long)g_os.calls[i]); p += b; f = false; }
    p += "}"; o.kvraw("os_calls", p); }
  { std::string p = "{"; bool f = true;
    for (int i = 0; i < OS__KINDS; i++) if (g_os.refused[i]) { char b[96]; snprintf(b, sizeof b, "%s\"%s\":%llu", f ? "" : ",", os_kind_names[i], (unsigned long long)g_os.refused[i]); p += b; f = false; }
    p += "}"; o.kvraw("os_refused", p); }
  o.kv("faults_fired", os_faults_fired());
  o.kv("foreign_os_calls", g_os.foreign_calls);
  o.kv("peak_mapped", g_os.peak_mapped);
  if (g_result_extra) g_result_extra(o);
  if (g_cfg.trace) {
    std::string t = "[";
    for (size_t i = 0; i < g_notes.size(); i++) { if (i) t += ","; t += "\""; t += JsonOut::esc(g_notes[i]); t += "\""; }
    t += "]"; o.kvraw("trace", t);
    std::string l = "[";
    for (size_t i = 0; i < g_os.log.size() && i < 5000; i++) {
      const OsCall& c = g_os.log[i]; char b[200];
      snprintf(b, sizeof b, "%s[\"%s\",%d,%d,\"0x%llx\",%llu,%d,%d]", i ? "," : "", os_kind_names[c.kind], (int)c.vt, c.op, (unsigned long long)c.addr, (unsigned long long)c.len, c.err, (int)c.injected);
      l += b;
    }
    l += "]"; o.kvraw("os_log", l);
  }
  o.s += "}\n";
  size_t off = 0;
  while (off < o.s.size()) { ssize_t w = write(g_result_fd, o.s.data() + off, o.s.size() - off); if (w <= 0) break; off += (size_t)w; }
  if (__gcov_dump) __gcov_dump();     // only in the coverage build of tools/covreport.py (weak, otherwise null)
  _exit(code);
}

[[noreturn]] void sim_violation(const char* oracle, const char* fmt, ...) {
  char b[1024]; va_list ap; va_start(ap, fmt); vsnprintf(b, sizeof b, fmt, ap); va_end(ap);
  write_result_and_exit("violation", oracle, b, 0);
}
[[noreturn]] void sim_infra_error(const char* fmt, ...) {
  char b[1024]; va_list ap; va_start(ap, fmt); vsnprintf(b, sizeof b, fmt, ap); va_end(ap);
  write_result_and_exit("infra", "infra", b, 2);
}
[[noreturn]] void sim_finish_ok() { write_result_and_exit("ok", nullptr, nullptr, 0); }

// ---------------------------------------------------------------------------------
// baton
// ---------------------------------------------------------------------------------
static inline bool runnable(const VThread& t) { return t.state == VS_RUNNABLE; }

static VThread* pick_next(VThread* self /* may be excluded */, bool exclude_self) {
  VThread* cand[MAX_VT]; int n = 0; VThread* candy[MAX_VT]; int ny = 0;
  for (int i = 0; i < g_nvt; i++) {
    VThread* t = &g_vt[i];
    if (!runnable(*t)) continue;
    if (exclude_self && t == self) continue;
    if (t->yielded) candy[ny++] = t; else cand[n++] = t;
  }
  VThread** c = cand; int cn = n;
  if (cn == 0) { c = candy; cn = ny; }
  if (cn == 0) return nullptr;
  if (g_cfg.hold_steps) {   // stalled threads wait while somebody else can run
    VThread* nh[MAX_VT]; int k = 0;
    for (int i = 0; i < cn; i++) if (c[i]->hold_until <= g_stats.steps) nh[k++] = c[i];
    if (k > 0 && k < cn) { for (int i = 0; i < k; i++) c[i] = nh[i]; cn = k; }
  }
  if (g_cfg.strategy == ST_PCT) {
    VThread* best = c[0];
    for (int i = 1; i < cn; i++) if (c[i]->priority > best->priority) best = c[i];
    return best;
  }
  if (g_cfg.strategy == ST_ROUNDROBIN) {
    for (int k = 1; k <= g_nvt; k++) { int j = (g_rr_next + k) % g_nvt; for (int i = 0; i < cn; i++) if (c[i]->idx == j) { g_rr_next = j; return c[i]; } }
  }
  return c[sched_draw(tl_cur) % (uint64_t)cn];
}

static void hand_over(VThread* from, VThread* to) {
  // `from` holds the baton; give it to `to` and park (unless from is done)
  if (to == from) return;
  g_stats.switches++;
  if (from && from->last_site) {
    int id = from->last_site->id;
    if (g_site_probe_switch[id] >= 0) {
      probe((Probe)g_site_probe_switch[id]);
      g_sched_sig.add(((uint64_t)from->idx << 32) ^ (uint64_t)id ^ ((uint64_t)to->idx << 40));
    }
  }
  g_cur = to->idx;
  sem_post(&to->sem);
  if (from && from->state != VS_DONE) {
    while (sem_wait(&from->sem) != 0) { /* EINTR */ }
  }
}

static void deadlock_report() {
  char b[600]; size_t off = 0;
  for (int i = 0; i < g_nvt && off < sizeof b - 80; i++) {
    VThread& t = g_vt[i];
    off += (size_t)snprintf(b + off, sizeof b - off, "vt%d:%s%s%s ", i, t.state == VS_DONE ? "done" : t.state == VS_BLOCKED ? "blocked" : "runnable",
                            t.block_kind == BK_LOCK ? "(lock)" : t.block_kind == BK_JOIN ? "(join)" : t.block_kind == BK_BARRIER ? "(barrier)" : "",
                            (t.last_site ? t.last_site->func : ""));
  }
  sim_violation("progress", "deadlock: no runnable vthread: %s", b);
}

// current thread must stop running (blocked or done): pass the baton on
static bool wake_waiters_timed_out() {     // nothing else can run: harness-level waits (sched_wait) give up instead of deadlocking
  bool any = false;
  for (int i = 0; i < g_nvt; i++) { VThread& o = g_vt[i]; if (o.state == VS_BLOCKED && (o.block_kind == BK_WAIT || o.block_kind == BK_BARRIER)) { o.state = VS_RUNNABLE; o.block_kind = BK_NONE; o.block_on = nullptr; o.wait_timed_out = true; any = true; } }
  return any;
}
static void switch_away(VThread* self) {
  VThread* n = pick_next(self, true);
  if (n == nullptr && wake_waiters_timed_out()) n = pick_next(self, false);
  if (n == nullptr) deadlock_report();
  hand_over(self, n);
}

static void budget_check(VThread* t) {
  if (t->call_steps > g_cfg.max_call_steps) {
    const mi_sim_site_t* s = t->last_site;
    sim_violation("progress", "API call of vt%d exceeded %llu scheduling points (spinning at %s:%d %s)", t->idx,
                  (unsigned long long)g_cfg.max_call_steps, s ? s->func : "?", s ? s->line : 0, s ? kind_name(s->kind) : "");
  }
  if (g_stats.steps > g_cfg.max_run_steps) sim_violation("progress", "run exceeded %llu scheduling points", (unsigned long long)g_cfg.max_run_steps);
}

static inline void clear_yields(VThread* self) {
  for (int i = 0; i < g_nvt; i++) if (&g_vt[i] != self) g_vt[i].yielded = false;
}

static void maybe_switch(VThread* t, const mi_sim_site_t* site, bool harness) {
  switch (g_cfg.strategy) {
    case ST_PCT: {
      while (g_pct_next < g_pct_change.size() && g_stats.steps >= g_pct_change[g_pct_next]) {
        t->priority = --g_pct_low; g_pct_next++;
      }
      VThread* n = pick_next(t, false);
      if (n && n != t) hand_over(t, n);
      return;
    }
    case ST_RANDOM: case ST_TARGETED: case ST_NONE: case ST_ROUNDROBIN: default: {
      double p = harness ? g_cfg.harness_p : (g_cfg.strategy == ST_TARGETED ? ((site->flags & SF_HOT) ? g_cfg.hot_p : g_cfg.switch_p)
                                              : (g_cfg.strategy == ST_RANDOM ? g_cfg.switch_p : 0.0));
      if (g_cfg.strategy == ST_ROUNDROBIN && harness) p = 1.0;
      if (p <= 0.0) return;
      if (g_nvt < 2) return;
      if (!sched_chance(t, p)) return;
      VThread* n = pick_next(t, true);
      if (n && g_cfg.hold_steps && !harness && (site->flags & SF_HOT)) t->hold_until = g_stats.steps + g_cfg.hold_steps;   // stall here: the others run on for a while
      if (n) hand_over(t, n);
      return;
    }
  }
}

// ---------------------------------------------------------------------------------
// store buffer (SimConfig.sb_p): store -> load reordering of one thread's atomic accesses
// ---------------------------------------------------------------------------------
extern "C" { int mi_sim_sb_active = 0; }
static void sb_write(const VThread::SbEntry& e) {
  switch (e.size) {
    case 1: __atomic_store_n((volatile uint8_t*)e.addr, (uint8_t)e.val, __ATOMIC_RELEASE); break;
    case 2: __atomic_store_n((volatile uint16_t*)e.addr, (uint16_t)e.val, __ATOMIC_RELEASE); break;
    case 4: __atomic_store_n((volatile uint32_t*)e.addr, (uint32_t)e.val, __ATOMIC_RELEASE); break;
    default: __atomic_store_n((volatile uint64_t*)e.addr, (uint64_t)e.val, __ATOMIC_RELEASE); break;
  }
}
static void sb_flush(VThread* t, int upto = 1 << 30) {   // drain the oldest `upto` entries in order
  if (t == nullptr || t->sb_n == 0) return;
  int n = upto < t->sb_n ? upto : t->sb_n;
  for (int i = 0; i < n; i++) { sb_write(t->sb[i]); g_event_hash.add(0x5B0F1ull ^ (uint64_t)(uintptr_t)t->sb[i].addr); }
  for (int i = n; i < t->sb_n; i++) t->sb[i - n] = t->sb[i];
  t->sb_n -= n;
}
void sched_sb_flush() { sb_flush(tl_cur); }
extern "C" bool mi_sim_store_buffer(mi_sim_site_t* site, volatile void* addr, size_t size, uint64_t val) {
  VThread* t = tl_cur;
  if (!g_active || t == nullptr || t->passthrough || g_cfg.sb_p <= 0 || g_finishing) return false;
  if (!sched_chance(t, g_cfg.sb_p)) return false;
  if (t->sb_n >= 4) sb_flush(t);
  VThread::SbEntry& e = t->sb[t->sb_n++];
  e.addr = addr; e.val = val; e.size = (int)size; e.ttl = 1 + (int)(sched_draw(t) % 3); e.site = site;
  g_sb_buffered++;
  return true;
}
extern "C" bool mi_sim_load_forward(const volatile void* addr, uint64_t* val) {
  VThread* t = tl_cur;
  if (t == nullptr || t->sb_n == 0) return false;
  for (int i = t->sb_n - 1; i >= 0; i--) if (t->sb[i].addr == addr) { *val = t->sb[i].val; return true; }   // the thread sees its own latest store
  g_sb_overtaken++;        // a load of another location was performed while an older store of this thread is still pending
  if (g_cfg.trace) { const mi_sim_site_t* ls = t->last_site; sim_note("sb: vt%d load at %s:%d (%s) overtakes its pending store to %p (stored at %s:%d)", t->idx, ls ? base_name(ls->file) : "?", ls ? ls->line : 0, ls && ls->func ? ls->func : "?", (void*)t->sb[0].addr, t->sb[0].site ? base_name(t->sb[0].site->file) : "?", t->sb[0].site ? t->sb[0].site->line : 0); }
  return false;
}

extern "C" void mi_sim_point(mi_sim_site_t* site, const char* func, const volatile void* addr) {
  VThread* t = tl_cur;
  if (t != nullptr && t->sb_n != 0 && (!g_active || t->passthrough || (site->flags & SF_NOPREEMPT))) sb_flush(t);
  if (!g_active || t == nullptr || t->passthrough) return;
  if (site->id == 0) site_register(site, func);
  if (site->flags & SF_NOPREEMPT) { g_stats.stat_points++; return; }
  t->last_site = site;
  g_stats.steps++; t->steps++; t->call_steps++;
  g_event_hash.add(((uint64_t)t->idx << 56) ^ ((uint64_t)site->id << 40) ^ (uint64_t)(uintptr_t)addr);
  g_clock_ns += g_cfg.tick_ns;
  if (g_site_probe[site->id] >= 0) probe((Probe)g_site_probe[site->id]);
  clear_yields(t);
  budget_check(t);
  maybe_switch(t, site, false);
  // the thread goes on: anything but a load drains its store buffer first; a load lets the buffered stores age
  if (t->sb_n != 0) {
    if (site->kind != MI_SIM_LOAD) sb_flush(t);
    else { int expired = 0; for (int i = 0; i < t->sb_n; i++) if (--t->sb[i].ttl < 0) expired = i + 1; if (expired) sb_flush(t, expired); }
  }
}

static mi_sim_site_t g_harness_site = {"harness", "harness", 0, MI_SIM_HARNESS, 0, 0};

void sched_harness_point(int what) {
  VThread* t = tl_cur;
  sb_flush(t);
  if (!g_active || t == nullptr) return;
  if (g_harness_site.id == 0) site_register(&g_harness_site, "harness");
  t->last_site = &g_harness_site;
  g_stats.harness_points++;
  g_event_hash.add(((uint64_t)t->idx << 56) ^ 0xABCD0000ull ^ (uint64_t)what);
  clear_yields(t);
  maybe_switch(t, &g_harness_site, true);
}

static mi_sim_site_t g_os_site = {"simos", "os_call", 0, MI_SIM_HARNESS, 0, 0};
void sched_os_point(int kind) {
  VThread* t = tl_cur;
  sb_flush(t);       // a system call is a full barrier
  if (!g_active || t == nullptr || t->passthrough) return;
  if (g_os_site.id == 0) site_register(&g_os_site, "os_call");
  t->last_site = &g_os_site;
  g_stats.steps++; t->steps++; t->call_steps++;
  g_event_hash.add(((uint64_t)t->idx << 56) ^ 0x05CA11ull ^ ((uint64_t)kind << 24));
  clear_yields(t);
  budget_check(t);
  maybe_switch(t, &g_os_site, false);
}

void sched_call_begin() { if (tl_cur) tl_cur->call_steps = 0; }
void sched_set_op(int op_index) { if (tl_cur) { tl_cur->cur_op = op_index; tl_cur->op_draws = 0; } }
static uint64_t sched_draw(VThread* t) {
  if (!g_cfg.stable_sched || t == nullptr) return g_srng.next();
  uint64_t k = mix64(g_cfg.sched_seed ? g_cfg.sched_seed : mix64(g_cfg.seed, 0x5C4ED), ((uint64_t)(uint32_t)t->logical << 32) ^ (uint64_t)(uint32_t)t->cur_op);
  return mix64(k, t->op_draws++);
}
void sched_set_passthrough(bool on) { if (tl_cur) { sb_flush(tl_cur); if (on) tl_cur->passthrough++; else if (tl_cur->passthrough > 0) tl_cur->passthrough--; } }
int  sched_self() { return tl_cur ? tl_cur->idx : -1; }
void sched_set_logical(int id) { if (tl_cur) tl_cur->logical = id; }
int  sched_logical() { return tl_cur ? tl_cur->logical : 0; }
size_t sched_vtid(int i) { return g_vt[i].vtid; }
int  sched_nthreads() { return g_nvt; }
bool sched_is_done(int i) { return g_vt[i].state == VS_DONE; }
bool sched_in_func(const char* func) { return tl_cur && tl_cur->last_site && str_eq(tl_cur->last_site->func, func); }
const char* sched_last_site() {
  static __thread char b[200];
  if (!tl_cur || !tl_cur->last_site) return "";
  snprintf(b, sizeof b, "%s:%d", tl_cur->last_site->func, tl_cur->last_site->line);
  return b;
}

extern "C" bool mi_sim_cas_spurious(mi_sim_site_t* site) {
  VThread* t = tl_cur;
  if (!g_active || t == nullptr || t->passthrough || g_cfg.spurious_p <= 0.0) return false;
  if (site->flags & SF_NOPREEMPT) return false;
  if (t->spurious_site == site && t->spurious_run >= 3) { t->spurious_run = 0; return false; }
  if (!sched_chance(t, g_cfg.spurious_p)) { if (t->spurious_site == site) t->spurious_run = 0; return false; }
  if (t->spurious_site != site) { t->spurious_site = site; t->spurious_run = 0; }
  t->spurious_run++;
  g_stats.spurious++; probe(PR_spurious_cas_injected);
  g_event_hash.add(0x5555ull ^ ((uint64_t)site->id << 20));
  return true;
}

extern "C" void mi_sim_cas_result(mi_sim_site_t* site, bool success) {
  if (!g_active || tl_cur == nullptr || tl_cur->passthrough) return;
  if (!success && site->id > 0 && g_site_probe_casfail[site->id] >= 0) probe((Probe)g_site_probe_casfail[site->id]);
  if (!success && str_eq(site->func, "mi_bitmap_try_find_claim_field_across")) probe(PR_bitmap_rollback);
}

extern "C" size_t mi_sim_tid(void) {
  VThread* t = tl_cur;
  if (t == nullptr) return g_vt[0].vtid ? g_vt[0].vtid : 0x10000;
  return t->vtid;
}

extern "C" void mi_sim_yield(mi_sim_site_t* site, const char* func) {
  VThread* t = tl_cur;
  if (!g_active || t == nullptr || t->passthrough) return;
  if (site->id == 0) site_register(site, func);
  t->last_site = site;
  g_stats.steps++; g_stats.yields++; t->steps++; t->call_steps++;
  g_event_hash.add(((uint64_t)t->idx << 56) ^ ((uint64_t)site->id << 40) ^ 0x77);
  g_clock_ns += g_cfg.tick_ns;
  if (g_site_probe[site->id] >= 0) probe((Probe)g_site_probe[site->id]);
  clear_yields(t);
  budget_check(t);
  t->yielded = true;
  VThread* n = pick_next(t, true);
  if (n) { probe(PR_yield_switch); hand_over(t, n); }
  // else: nobody else can run; keep going (the per-call budget catches a livelock)
}

// ---------------------------------------------------------------------------------
// locks
// ---------------------------------------------------------------------------------
static SimLock* lock_find(void* addr) {
  for (auto& l : g_locks) if (l.addr == addr) return &l;
  g_locks.push_back(SimLock{addr, -1});
  return &g_locks.back();
}

extern "C" bool mi_sim_lock_try_acquire(mi_sim_site_t* site, const char* func, void* lock) {
  VThread* t = tl_cur;
  if (!g_active || t == nullptr) { SimLock* l = lock_find(lock); if (l->owner != -1) return false; l->owner = t ? t->idx : 0; return true; }
  if (!t->passthrough) mi_sim_point(site, func, lock);
  SimLock* l = lock_find(lock);
  if (l->owner != -1) return false;
  l->owner = t->idx;
  return true;
}

extern "C" void mi_sim_lock_acquire(mi_sim_site_t* site, const char* func, void* lock) {
  VThread* t = tl_cur;
  if (!g_active || t == nullptr) { SimLock* l = lock_find(lock); l->owner = t ? t->idx : 0; return; }
  if (!t->passthrough) mi_sim_point(site, func, lock);
  for (;;) {
    SimLock* l = lock_find(lock);
    if (l->owner == -1) { l->owner = t->idx; return; }
    if (l->owner == t->idx) sim_violation("progress", "vt%d re-acquires a lock it holds (%s)", t->idx, func);
    g_stats.lock_blocks++; probe(PR_lock_blocked);
    t->state = VS_BLOCKED; t->block_kind = BK_LOCK; t->block_on = lock;
    switch_away(t);
  }
}

extern "C" void mi_sim_lock_release(mi_sim_site_t* site, const char* func, void* lock) {
  VThread* t = tl_cur;
  SimLock* l = lock_find(lock);
  l->owner = -1;
  for (int i = 0; i < g_nvt; i++) {
    VThread& o = g_vt[i];
    if (o.state == VS_BLOCKED && o.block_kind == BK_LOCK && o.block_on == lock) { o.state = VS_RUNNABLE; o.block_kind = BK_NONE; o.block_on = nullptr; }
  }
  if (g_active && t && !t->passthrough) mi_sim_point(site, func, lock);
}

// ---------------------------------------------------------------------------------
// TLS key emulation (mimalloc registers exactly one key with a destructor)
// ---------------------------------------------------------------------------------
extern "C" int sim_key_create(pthread_key_t* key, void (*destr)(void*)) {
  g_key_destr = destr; *key = (pthread_key_t)77; return 0;
}
extern "C" int sim_setspecific(pthread_key_t key, const void* value) {
  (void)key; if (tl_cur) tl_cur->tls_value = (void*)value; return 0;
}
extern "C" int sim_key_delete(pthread_key_t key) { (void)key; return 0; }

uint64_t sched_run_tls_destructor() {
  VThread* t = tl_cur; uint64_t n = 0;
  for (int round = 0; round < 4 && t && t->tls_value != nullptr && g_key_destr != nullptr; round++) {
    void* v = t->tls_value; t->tls_value = nullptr;
    g_key_destr(v); n++;
  }
  return n;
}

// ---------------------------------------------------------------------------------
// clock
// ---------------------------------------------------------------------------------
uint64_t clock_now_ns() { return g_clock_ns; }
void clock_advance_ms(uint64_t ms) { g_clock_ns += ms * 1000000ull; g_clock_advanced_ns += ms * 1000000ull; }
extern "C" int sim_clock_gettime(clockid_t clk, struct timespec* ts) {
  (void)clk;
  ts->tv_sec = (time_t)(g_clock_ns / 1000000000ull); ts->tv_nsec = (long)(g_clock_ns % 1000000000ull);
  if (g_active && tl_cur && !tl_cur->passthrough) g_event_hash.add(0xC10Cull ^ g_clock_ns);
  return 0;
}

// ---------------------------------------------------------------------------------
// thread life-cycle
// ---------------------------------------------------------------------------------
static void* vthread_start(void* p) {
  VThread* t = (VThread*)p;
  tl_cur = t;
  while (sem_wait(&t->sem) != 0) {}
  t->fn(t->idx, t->arg);
  // program over: thread is done
  sb_flush(t);
  t->state = VS_DONE;
  for (int i = 0; i < g_nvt; i++) {
    VThread& o = g_vt[i];
    if (o.state == VS_BLOCKED && o.block_kind == BK_JOIN && o.block_on == (void*)t) { o.state = VS_RUNNABLE; o.block_kind = BK_NONE; o.block_on = nullptr; }
  }
  VThread* n = pick_next(t, true);
  if (n == nullptr && wake_waiters_timed_out()) n = pick_next(t, true);
  if (n == nullptr) {
    bool all_done = true; for (int i = 0; i < g_nvt; i++) if (g_vt[i].state != VS_DONE) all_done = false;
    if (all_done) sim_infra_error("all vthreads ended without finishing the run");
    deadlock_report();
  }
  hand_over(t, n);
  return nullptr;
}

static VThread* vt_create(vthread_main_t fn, void* arg, bool reuse_id) {
  if (g_nvt >= MAX_VT) sim_infra_error("too many vthreads");
  VThread* t = &g_vt[g_nvt];
  memset((void*)t, 0, sizeof *t);
  t->idx = g_nvt;
  t->vtid = 0x10000 + (size_t)g_nvt * 0x1000;
  if (reuse_id) {
    for (int i = 1; i < g_nvt; i++) {
      if (g_vt[i].state == VS_DONE) {
        bool taken = false;
        for (int j = 0; j < g_nvt; j++) if (j != i && g_vt[j].state != VS_DONE && g_vt[j].vtid == g_vt[i].vtid) taken = true;
        if (!taken) { t->vtid = g_vt[i].vtid; probe(PR_thread_id_reused); break; }
      }
    }
  }
  sem_init(&t->sem, 0, 0);
  t->state = VS_RUNNABLE; t->fn = fn; t->arg = arg;
  t->priority = (int64_t)(1000 + g_srng.below(1000000));
  g_nvt++;
  pthread_attr_t at; pthread_attr_init(&at); pthread_attr_setstacksize(&at, 4u << 20);
  if (pthread_create(&t->th, &at, vthread_start, t) != 0) sim_infra_error("pthread_create failed");
  pthread_attr_destroy(&at);
  pthread_detach(t->th);
  return t;
}

int sched_spawn(vthread_main_t fn, void* arg, bool reuse_id) {
  VThread* t = vt_create(fn, arg, reuse_id);
  g_event_hash.add(0x5BA0ull ^ (uint64_t)t->idx ^ ((uint64_t)t->vtid << 8));
  return t->idx;
}

void sched_join(int i) { sched_sb_flush();
  VThread* t = tl_cur;
  while (g_vt[i].state != VS_DONE) {
    t->state = VS_BLOCKED; t->block_kind = BK_JOIN; t->block_on = (void*)&g_vt[i];
    switch_away(t);
  }
}

// harness-level condition wait: block until another vthread calls sched_notify(key); false = gave up (nothing else could run)
bool sched_wait(uint64_t key) { sched_sb_flush();
  VThread* t = tl_cur;
  t->wait_timed_out = false;
  t->state = VS_BLOCKED; t->block_kind = BK_WAIT; t->block_on = (void*)(uintptr_t)(key + 1);
  switch_away(t);
  return !t->wait_timed_out;
}
void sched_notify(uint64_t key) {
  for (int i = 0; i < g_nvt; i++) { VThread& o = g_vt[i]; if (o.state == VS_BLOCKED && o.block_kind == BK_WAIT && o.block_on == (void*)(uintptr_t)(key + 1)) { o.state = VS_RUNNABLE; o.block_kind = BK_NONE; o.block_on = nullptr; } }
}

void sched_barrier(int id, int parties) { sched_sb_flush();
  VThread* t = tl_cur;
  Barrier* b = nullptr;
  for (auto& x : g_barriers) if (x.id == id) b = &x;
  if (!b) { g_barriers.push_back(Barrier{id, 0, 0}); b = &g_barriers.back(); }
  b->arrived++;
  if (b->arrived >= parties) {
    b->arrived = 0; b->generation++;
    for (int i = 0; i < g_nvt; i++) {
      VThread& o = g_vt[i];
      if (o.state == VS_BLOCKED && o.block_kind == BK_BARRIER && o.block_on == (void*)(intptr_t)(id + 1)) { o.state = VS_RUNNABLE; o.block_kind = BK_NONE; o.block_on = nullptr; }
    }
    return;
  }
  int gen = b->generation;
  t->wait_timed_out = false;
  while (true) {
    Barrier* bb = nullptr; for (auto& x : g_barriers) if (x.id == id) bb = &x;
    if (bb->generation != gen) break;
    if (t->wait_timed_out) { if (bb->arrived > 0) bb->arrived--; break; }     // the missing parties can never arrive (a shrunk plan): give up instead of deadlocking
    t->state = VS_BLOCKED; t->block_kind = BK_BARRIER; t->block_on = (void*)(intptr_t)(id + 1);
    switch_away(t);
  }
}

// ---------------------------------------------------------------------------------
// signals: a crash inside the allocator (or inside the harness's own access to a block) is a violation
// ---------------------------------------------------------------------------------
static void crash_handler(int sig, siginfo_t* si, void* ctx) {
  if (g_finishing) _exit(3);
  char d[256] = ""; char b[700]; char pc[48] = "";
#if defined(__x86_64__)
  if (ctx) snprintf(pc, sizeof pc, " pc=0x%llx", (unsigned long long)((ucontext_t*)ctx)->uc_mcontext.gregs[REG_RIP]);
#endif
  if (sig == SIGSEGV || sig == SIGBUS) {
    os_describe_addr(si->si_addr, d, sizeof d);
    snprintf(b, sizeof b, "%s at %p (%s)%s%s", sig == SIGSEGV ? "SIGSEGV" : "SIGBUS", si->si_addr, d, g_crash_context ? g_crash_context() : "", pc);
    write_result_and_exit("violation", "crash", b, 0);
  }
  if (sig == SIGABRT && g_abort_is_expected && g_abort_is_expected()) write_result_and_exit("ok", nullptr, nullptr, 0);
  if (sig == SIGILL && strcmp(g_sim_build_name, "UBS") == 0) {    // the UBS build traps (ud2) where -fsanitize=undefined detects undefined behaviour
    snprintf(b, sizeof b, "undefined behaviour trapped by -fsanitize=undefined (overflow, shift, misaligned or null access, out-of-bounds index ...)%s%s", g_crash_context ? g_crash_context() : "", pc);
    write_result_and_exit("violation", "ubsan", b, 0);
  }
  snprintf(b, sizeof b, "signal %d (%s)%s last message: %.300s", sig, sig == SIGABRT ? "abort" : "fatal", g_crash_context ? g_crash_context() : "", g_last_msg);
  write_result_and_exit("violation", sig == SIGABRT ? "abort" : "crash", b, 0);
}

const char* g_sim_build_name = "";
void sim_set_last_message(const char* m) { snprintf(g_last_msg, sizeof g_last_msg, "%s", m); }

void sched_init() {
  mi_sim_sb_active = (g_cfg.sb_p > 0) ? 1 : 0;
  g_srng.seed(g_cfg.sched_seed ? g_cfg.sched_seed : mix64(g_cfg.seed, 0x5C4ED));
  g_clock_ns = g_cfg.clock_start_ns;
  if (g_cfg.strategy == ST_PCT) {
    for (int i = 0; i < g_cfg.pct_depth; i++) g_pct_change.push_back(1 + g_srng.below(g_cfg.pct_horizon ? g_cfg.pct_horizon : 1));
    for (size_t i = 0; i < g_pct_change.size(); i++) for (size_t j = i + 1; j < g_pct_change.size(); j++) if (g_pct_change[j] < g_pct_change[i]) std::swap(g_pct_change[i], g_pct_change[j]);
    g_pct_low = 0;
  }
  struct sigaction sa; memset(&sa, 0, sizeof sa);
  sa.sa_sigaction = crash_handler; sa.sa_flags = SA_SIGINFO | SA_NODEFER;
  sigaction(SIGSEGV, &sa, nullptr); sigaction(SIGBUS, &sa, nullptr); sigaction(SIGABRT, &sa, nullptr);
  sigaction(SIGILL, &sa, nullptr); sigaction(SIGFPE, &sa, nullptr);
}

[[noreturn]] void sched_run(vthread_main_t fn, void* arg) {
  VThread* t0 = vt_create(fn, arg, false);
  g_active = true;
  g_cur = 0;
  sem_post(&t0->sem);
  // controller: wall-clock watchdog only
  struct timespec st; clock_gettime(CLOCK_MONOTONIC, &st);
  for (;;) {
    struct timespec ts = {0, 20 * 1000 * 1000}; nanosleep(&ts, nullptr);
    struct timespec now; clock_gettime(CLOCK_MONOTONIC, &now);
    double el = (double)(now.tv_sec - st.tv_sec) + (double)(now.tv_nsec - st.tv_nsec) * 1e-9;
    if (el > g_cfg.wall_limit_s) {
      // every source of time in a run is simulated, so a run that does not finish hangs inside the code under test
      // (a loop that passes no scheduling point, e.g. walking a cyclic free list); the checks confirm it by replaying
      const VThread* c = (g_cur >= 0 ? &g_vt[g_cur] : nullptr);
      char b[300]; snprintf(b, sizeof b, "run did not finish within %.0fs of wall-clock time: vt%d makes no progress after scheduling point #%llu (last site %s:%d)", g_cfg.wall_limit_s,
                            g_cur, (unsigned long long)g_stats.steps, (c && c->last_site) ? c->last_site->func : "?", (c && c->last_site) ? c->last_site->line : 0);
      g_finishing = true;
      JsonOut o; o.s = "{"; o.kvs("status", "violation"); o.kvs("oracle", "hang"); o.kvs("msg", b); o.kv("seed", g_cfg.seed); o.kvs("event_hash", "hang"); o.s += "}\n";
      ssize_t w = write(g_result_fd, o.s.data(), o.s.size()); (void)w;
      _exit(0);
    }
  }
}
