// main.cc -- simrun: one process = one simulated run.
//   simrun --family F --seed S [--dump-plan] [key=value overrides]
//   simrun --replay FILE [key=value overrides]
#include "plan.h"
#include <stdio.h>
#include <stdlib.h>
#include <string.h>
#include <sys/personality.h>
#include <unistd.h>
#include <fstream>
#include <sstream>

int main(int argc, char** argv) {
  // bit-identical addresses across processes: switch ASLR off for ourselves (children of the driver inherit it)
  int pers = personality(0xffffffff);
  if (pers != -1 && !(pers & ADDR_NO_RANDOMIZE) && getenv("SIM_NO_REEXEC") == nullptr) {
    personality((unsigned long)pers | ADDR_NO_RANDOMIZE);
    setenv("SIM_NO_REEXEC", "1", 1);
    execv("/proc/self/exe", argv);
  }
  std::string family, replay; uint64_t seed = 1; bool dump = false; std::map<std::string, std::string> ov;
  for (int i = 1; i < argc; i++) {
    std::string a = argv[i];
    if (a == "--family" && i + 1 < argc) family = argv[++i];
    else if (a == "--seed" && i + 1 < argc) seed = strtoull(argv[++i], nullptr, 0);
    else if (a == "--replay" && i + 1 < argc) replay = argv[++i];
    else if (a == "--dump-plan") dump = true;
    else if (a == "--trace") ov["trace"] = "1";
    else if (a == "--list") { for (auto& f : family_list()) printf("%s\n", f.c_str()); return 0; }
    else { size_t eq = a.find('='); if (eq != std::string::npos) ov[a.substr(0, eq)] = a.substr(eq + 1); else { fprintf(stderr, "bad argument %s\n", a.c_str()); return 2; } }
  }
  static Plan plan;
#ifndef SIM_BUILD
#define SIM_BUILD "REL"
#endif
  if (!replay.empty()) {
    std::ifstream in(replay); if (!in) { fprintf(stderr, "cannot read %s\n", replay.c_str()); return 2; }
    std::stringstream ss; ss << in.rdbuf(); std::string err;
    if (!plan_from_json(ss.str(), plan, err)) { fprintf(stderr, "bad replay file: %s\n", err.c_str()); return 2; }
    if (!plan.build.empty() && plan.build != SIM_BUILD) { fprintf(stderr, "replay file is for build %s, this is %s\n", plan.build.c_str(), SIM_BUILD); return 2; }
  } else {
    if (!family_generate(family, seed, SIM_BUILD, plan)) { fprintf(stderr, "unknown family %s\n", family.c_str()); return 2; }
  }
  plan.build = SIM_BUILD;
  plan_apply_overrides(plan, ov);
  if (dump) { fputs(plan_to_json(plan).c_str(), stdout); return 0; }
  // the real option parser reads the run's configuration from the environment
  for (char** e = environ; e && *e;) { if (strncasecmp(*e, "MIMALLOC_", 9) == 0) { std::string n(*e, strchr(*e, '=') ? (size_t)(strchr(*e, '=') - *e) : strlen(*e)); unsetenv(n.c_str()); e = environ; } else e++; }
  for (auto& kv : plan.env) setenv(kv.first.c_str(), kv.second.c_str(), 1);
  g_cfg = plan.cfg; if (g_cfg.seed == 0) g_cfg.seed = plan.seed;
  os_init(); sched_init();
  harness_run(plan);
}
