// plan.h -- a run is a plan: configuration + one program (operation list) per logical thread.
#pragma once
#include "sim.h"

#define OP_LIST(X) \
  /* allocate into slot (hslot = heap slot of the executing thread or -1 for the default-heap API) */ \
  X(malloc) X(zalloc) X(calloc) X(mallocn) X(malloc_small) X(zalloc_small) \
  X(malloc_aligned) X(malloc_aligned_at) X(zalloc_aligned) X(zalloc_aligned_at) X(calloc_aligned) X(calloc_aligned_at) \
  X(posix_memalign) X(memalign) X(aligned_alloc) X(valloc) X(pvalloc) X(strdup) X(strndup) X(new_plain) X(new_n) X(new_aligned) X(heap_alloc_new) X(heap_alloc_new_n) X(new_nothrow) X(new_aligned_nothrow) \
  /* resize slot */ \
  X(realloc) X(reallocn) X(reallocf) X(rezalloc) X(recalloc) X(realloc_aligned) X(realloc_aligned_at) \
  X(rezalloc_aligned) X(rezalloc_aligned_at) X(recalloc_aligned) X(recalloc_aligned_at) X(reallocarray) X(reallocarr) X(new_realloc) X(new_reallocn) X(expand) \
  /* release slot */ \
  X(free) X(free_size) X(free_size_aligned) X(free_aligned) X(cfree) \
  /* heaps */ \
  X(heap_new) X(heap_new_ex) X(heap_new_in_arena) X(heap_delete) X(heap_destroy) X(heap_set_default) X(heap_collect) X(collect) X(collect_reduce) \
  /* arenas and sub-processes */ \
  X(reserve_arena) X(manage_arena) X(subproc_new) X(subproc_add) \
  /* simulation */ \
  X(spawn) X(join) X(barrier) X(thread_done) X(thread_init) X(advance) X(heal_os) X(fill_page) X(free_page) X(nop) \
  /* oracles */ \
  X(verify_all) X(visit_heap) X(visit_abandoned) X(census) X(check_owner) X(free_all) X(expect_empty_heap) X(giveback_check) X(footprint_mark) \
  X(arena_fill_check) X(purge_check) X(pc_sample) \
  /* malformed requests (C06) */ \
  X(bad_request) \
  /* misuse (C17) */ \
  X(double_free) X(overflow_byte) X(corrupt_free_link)

enum OpCode {
#define X(n) OP_##n,
  OP_LIST(X)
#undef X
  OP__COUNT
};
extern const char* const op_names[OP__COUNT];

struct OpFault { int kind = -1; int nth = 0; int err = 12; bool persistent = false; };

struct Op {
  int code = OP_nop;
  int slot = -1;     // block slot (global), or arena/subproc slot, or program index (spawn/join)
  int hslot = -1;    // heap slot of the executing thread; -1 = default-heap API
  uint64_t a = 0, b = 0, c = 0, d = 0;
  uint32_t flags = 0;                 // OPF_*
  int uid = -1;                       // position in the generated plan; survives deletions by the minimiser (keys the scheduling decisions)
  std::vector<OpFault> faults;        // OS faults attached to this operation
};
enum { OPF_MAY_FAIL = 1,      // NULL is an acceptable answer even without an injected fault
       OPF_NO_FILL = 2,       // do not write the pattern (huge virtual blocks are sampled anyway)
       OPF_EXPLICIT_DONE = 4,
       OPF_WATCH = 8,         // free: remember the range; purge_check later demands that it was purged
       OPF_SENTINEL = 16,
       OPF_MUST_SUCCEED = 32,
       OPF_FULL_FILL = 64,
       OPF_WAIT = 128,
       OPF_NEW_HANDLER = 256,
       OPF_ZOMBIE = 512 };           // free by a thread that did not allocate the block: remember it for its owner, whose later double_free 'fire' releases it a second time      // mi_new* operations: a std::new_handler is installed for the call that makes the simulated OS give memory again (os_heal)      // allocation: wait until the slot is empty; free: wait until it is filled (bounded producer/consumer queue)     // write/verify every byte even of huge blocks  // NULL is a violation even after earlier (healed) faults   // free: a sentinel of a purge activity round

struct Program { std::vector<Op> ops; bool explicit_done = false; bool reuse_id = false; };

struct Plan {
  std::string property, family, build;
  uint64_t seed = 0;
  SimConfig cfg;
  std::vector<std::pair<std::string, std::string>> env;   // MIMALLOC_* options the run was started with (informational in replay)
  std::vector<Program> progs;
  int nslots = 64;
  // run-wide oracle switches
  bool check_error_callback = true;     // unexpected error callbacks are violations
  bool expect_no_null = true;           // well-formed moderate requests must succeed while no fault has fired
  bool purge_overlap_check = true;      // purge-type OS calls must not overlap live blocks
  bool sample_verify = true;            // verify a sample of live blocks after every operation
  uint64_t auto_advance_every = 0, auto_advance_ms = 0;   // advance the virtual clock every k operations (C13)
  std::string note;
};

std::string plan_to_json(const Plan& p);
bool plan_from_json(const std::string& text, Plan& p, std::string& err);
void plan_apply_overrides(Plan& p, const std::map<std::string, std::string>& kv);

// families.cc
bool family_generate(const std::string& family, uint64_t seed, const std::string& build, Plan& out);
std::vector<std::string> family_list();

// harness.cc
[[noreturn]] void harness_run(const Plan& plan);
