// plan_json.cc -- (de)serialisation of plans; replay files are exactly this JSON.
#include "plan.h"
#include <stdio.h>
#include <stdlib.h>
#include <string.h>
#include <memory>

const char* const op_names[OP__COUNT] = {
#define X(n) #n,
  OP_LIST(X)
#undef X
};

// ---------------- minimal JSON value + parser ----------------
struct JV {
  enum T { NUL, BOOL, NUM, STR, ARR, OBJ } t = NUL;
  bool b = false; double d = 0; uint64_t u = 0; bool is_int = false; bool neg = false;
  std::string s;
  std::vector<JV> a;
  std::vector<std::pair<std::string, JV>> o;
  const JV* get(const char* k) const { for (auto& kv : o) if (kv.first == k) return &kv.second; return nullptr; }
  uint64_t u64(uint64_t def = 0) const { if (t == NUM) return is_int ? u : (uint64_t)d; if (t == BOOL) return b; if (t == STR) return strtoull(s.c_str(), nullptr, 0); return def; }
  int64_t i64(int64_t def = 0) const { if (t == NUM) return is_int ? (neg ? -(int64_t)u : (int64_t)u) : (int64_t)d; if (t == BOOL) return b; return def; }
  double dbl(double def = 0) const { if (t == NUM) return is_int ? (neg ? -(double)u : (double)u) : d; return def; }
};

struct JP {
  const char* p; const char* e; std::string err;
  void ws() { while (p < e && (*p == ' ' || *p == '\n' || *p == '\t' || *p == '\r')) p++; }
  bool val(JV& v) {
    ws(); if (p >= e) { err = "eof"; return false; }
    char c = *p;
    if (c == '{') { p++; v.t = JV::OBJ; ws(); if (p < e && *p == '}') { p++; return true; }
      for (;;) { ws(); JV k; if (!str(k)) return false; ws(); if (p >= e || *p != ':') { err = "colon"; return false; } p++; JV x; if (!val(x)) return false; v.o.emplace_back(k.s, std::move(x)); ws();
        if (p < e && *p == ',') { p++; continue; } if (p < e && *p == '}') { p++; return true; } err = "obj"; return false; } }
    if (c == '[') { p++; v.t = JV::ARR; ws(); if (p < e && *p == ']') { p++; return true; }
      for (;;) { JV x; if (!val(x)) return false; v.a.push_back(std::move(x)); ws(); if (p < e && *p == ',') { p++; continue; } if (p < e && *p == ']') { p++; return true; } err = "arr"; return false; } }
    if (c == '"') return str(v);
    if (c == 't' && e - p >= 4 && !strncmp(p, "true", 4)) { p += 4; v.t = JV::BOOL; v.b = true; return true; }
    if (c == 'f' && e - p >= 5 && !strncmp(p, "false", 5)) { p += 5; v.t = JV::BOOL; v.b = false; return true; }
    if (c == 'n' && e - p >= 4 && !strncmp(p, "null", 4)) { p += 4; v.t = JV::NUL; return true; }
    // number
    const char* s = p; bool neg = false; if (*p == '-') { neg = true; p++; }
    bool isint = true; while (p < e && ((*p >= '0' && *p <= '9') || *p == '.' || *p == 'e' || *p == 'E' || *p == '+' || *p == '-')) { if (*p == '.' || *p == 'e' || *p == 'E') isint = false; p++; }
    if (p == s) { err = "value"; return false; }
    std::string n(s, p); v.t = JV::NUM; v.is_int = isint; v.neg = neg;
    if (isint) v.u = strtoull(n.c_str() + (neg ? 1 : 0), nullptr, 10); else v.d = strtod(n.c_str(), nullptr);
    return true;
  }
  bool str(JV& v) {
    ws(); if (p >= e || *p != '"') { err = "string"; return false; } p++; v.t = JV::STR;
    while (p < e && *p != '"') {
      if (*p == '\\' && p + 1 < e) { p++; char c = *p++; if (c == 'n') v.s += '\n'; else if (c == 't') v.s += '\t'; else if (c == 'u') { unsigned x = 0; sscanf(p, "%4x", &x); p += 4; v.s += (char)x; } else v.s += c; }
      else v.s += *p++;
    }
    if (p >= e) { err = "unterminated"; return false; } p++; return true;
  }
};

// ---------------- writer ----------------
static void jnum(std::string& s, const char* k, uint64_t v, bool& first) { char b[64]; snprintf(b, sizeof b, "%s\"%s\":%llu", first ? "" : ",", k, (unsigned long long)v); s += b; first = false; }
static void jint(std::string& s, const char* k, int64_t v, bool& first) { char b[64]; snprintf(b, sizeof b, "%s\"%s\":%lld", first ? "" : ",", k, (long long)v); s += b; first = false; }
static void jdbl(std::string& s, const char* k, double v, bool& first) { char b[64]; snprintf(b, sizeof b, "%s\"%s\":%.9g", first ? "" : ",", k, v); s += b; first = false; }
static void jstr(std::string& s, const char* k, const std::string& v, bool& first) { s += first ? "\"" : ",\""; s += k; s += "\":\""; s += JsonOut::esc(v); s += "\""; first = false; }

static std::string cfg_to_json(const SimConfig& c) {
  std::string s = "{"; bool f = true;
  jnum(s, "seed", c.seed, f); jnum(s, "sched_seed", c.sched_seed, f); jnum(s, "os_seed", c.os_seed, f); jnum(s, "entropy_seed", c.entropy_seed, f);
  jint(s, "strategy", c.strategy, f); jdbl(s, "switch_p", c.switch_p, f); jdbl(s, "hot_p", c.hot_p, f); jdbl(s, "harness_p", c.harness_p, f);
  jint(s, "pct_depth", c.pct_depth, f); jnum(s, "pct_horizon", c.pct_horizon, f); jdbl(s, "spurious_p", c.spurious_p, f);
  jnum(s, "max_call_steps", c.max_call_steps, f); jnum(s, "max_run_steps", c.max_run_steps, f);
  jnum(s, "clock_start_ns", c.clock_start_ns, f); jnum(s, "tick_ns", c.tick_ns, f);
  jint(s, "overcommit", c.overcommit, f); jint(s, "place_policy", c.place_policy, f); jdbl(s, "place_unaligned_p", c.place_unaligned_p, f);
  jint(s, "madv_free_mode", c.madv_free_mode, f); jint(s, "thp_einval", c.thp_einval, f); jint(s, "hugetlb", c.hugetlb, f); jint(s, "stable_sched", c.stable_sched, f); jnum(s, "hold_steps", c.hold_steps, f); jdbl(s, "sb_p", c.sb_p, f); jint(s, "entropy_fail", c.entropy_fail, f);
  jdbl(s, "wall_limit_s", c.wall_limit_s, f);
  s += ",\"hot_funcs\":["; for (size_t i = 0; i < c.hot_funcs.size(); i++) { if (i) s += ","; s += "\"" + c.hot_funcs[i] + "\""; } s += "]";
  s += "}"; return s;
}

static std::string op_to_json(const Op& o) {
  std::string s = "{"; bool f = true;
  jstr(s, "o", op_names[o.code], f);
  if (o.slot != -1) jint(s, "s", o.slot, f);
  if (o.hslot != -1) jint(s, "h", o.hslot, f);
  if (o.a) jnum(s, "a", o.a, f);
  if (o.b) jnum(s, "b", o.b, f);
  if (o.c) jnum(s, "c", o.c, f);
  if (o.d) jnum(s, "d", o.d, f);
  if (o.flags) jnum(s, "fl", o.flags, f);
  if (o.uid >= 0) jnum(s, "u", (uint64_t)o.uid, f);
  if (!o.faults.empty()) {
    s += ",\"f\":[";
    for (size_t i = 0; i < o.faults.size(); i++) { const OpFault& x = o.faults[i]; char b[128]; snprintf(b, sizeof b, "%s{\"kind\":%d,\"nth\":%d,\"err\":%d,\"persistent\":%d}", i ? "," : "", x.kind, x.nth, x.err, x.persistent ? 1 : 0); s += b; }
    s += "]";
  }
  s += "}"; return s;
}

std::string plan_to_json(const Plan& p) {
  std::string s = "{"; bool f = true;
  jstr(s, "property", p.property, f); jstr(s, "family", p.family, f); jstr(s, "build", p.build, f); jnum(s, "seed", p.seed, f);
  jint(s, "nslots", p.nslots, f);
  jint(s, "check_error_callback", p.check_error_callback, f); jint(s, "expect_no_null", p.expect_no_null, f);
  jint(s, "purge_overlap_check", p.purge_overlap_check, f); jint(s, "sample_verify", p.sample_verify, f);
  if (!p.note.empty()) jstr(s, "note", p.note, f);
  if (p.auto_advance_every) { jnum(s, "auto_advance_every", p.auto_advance_every, f); jnum(s, "auto_advance_ms", p.auto_advance_ms, f); }
  s += ",\"cfg\":" + cfg_to_json(p.cfg);
  s += ",\"env\":{"; for (size_t i = 0; i < p.env.size(); i++) { if (i) s += ","; s += "\"" + p.env[i].first + "\":\"" + JsonOut::esc(p.env[i].second) + "\""; } s += "}";
  s += ",\"progs\":[";
  for (size_t i = 0; i < p.progs.size(); i++) {
    if (i) s += ",";
    s += "\n {\"explicit_done\":"; s += p.progs[i].explicit_done ? "1" : "0"; s += ",\"reuse_id\":"; s += p.progs[i].reuse_id ? "1" : "0"; s += ",\"ops\":[";
    for (size_t j = 0; j < p.progs[i].ops.size(); j++) { if (j) s += ","; if (j % 4 == 0) s += "\n  "; s += op_to_json(p.progs[i].ops[j]); }
    s += "]}";
  }
  s += "]}\n";
  return s;
}

static int op_code_of(const std::string& n) { for (int i = 0; i < OP__COUNT; i++) if (n == op_names[i]) return i; return -1; }

static void cfg_from_json(const JV& j, SimConfig& c) {
  const JV* v;
#define G(name, expr) if ((v = j.get(#name))) c.name = expr;
  G(seed, v->u64()) G(sched_seed, v->u64()) G(os_seed, v->u64()) G(entropy_seed, v->u64())
  G(strategy, (int)v->i64()) G(switch_p, v->dbl()) G(hot_p, v->dbl()) G(harness_p, v->dbl())
  G(pct_depth, (int)v->i64()) G(pct_horizon, v->u64()) G(spurious_p, v->dbl())
  G(max_call_steps, v->u64()) G(max_run_steps, v->u64()) G(clock_start_ns, v->u64()) G(tick_ns, v->u64())
  G(overcommit, (int)v->i64()) G(place_policy, (int)v->i64()) G(place_unaligned_p, v->dbl())
  G(madv_free_mode, (int)v->i64()) G(thp_einval, (int)v->i64()) G(hugetlb, (int)v->i64()) G(stable_sched, (int)v->i64()) G(hold_steps, v->u64()) G(sb_p, v->dbl()) G(entropy_fail, (int)v->i64()) G(wall_limit_s, v->dbl())
#undef G
  if ((v = j.get("hot_funcs")) && v->t == JV::ARR) { c.hot_funcs.clear(); for (auto& x : v->a) c.hot_funcs.push_back(x.s); }
}

bool plan_from_json(const std::string& text, Plan& p, std::string& err) {
  JP jp{text.data(), text.data() + text.size(), ""};
  JV root; if (!jp.val(root) || root.t != JV::OBJ) { err = "json: " + jp.err; return false; }
  const JV* v;
  if ((v = root.get("plan")) && v->t == JV::OBJ) { JV inner = *v; root = inner; }   // replay files wrap the plan
  if ((v = root.get("property"))) p.property = v->s;
  if ((v = root.get("family"))) p.family = v->s;
  if ((v = root.get("build"))) p.build = v->s;
  if ((v = root.get("seed"))) p.seed = v->u64();
  if ((v = root.get("nslots"))) p.nslots = (int)v->i64();
  if ((v = root.get("check_error_callback"))) p.check_error_callback = v->i64() != 0;
  if ((v = root.get("expect_no_null"))) p.expect_no_null = v->i64() != 0;
  if ((v = root.get("purge_overlap_check"))) p.purge_overlap_check = v->i64() != 0;
  if ((v = root.get("sample_verify"))) p.sample_verify = v->i64() != 0;
  if ((v = root.get("note"))) p.note = v->s;
  if ((v = root.get("auto_advance_every"))) p.auto_advance_every = v->u64();
  if ((v = root.get("auto_advance_ms"))) p.auto_advance_ms = v->u64();
  if ((v = root.get("cfg")) && v->t == JV::OBJ) cfg_from_json(*v, p.cfg);
  if ((v = root.get("env")) && v->t == JV::OBJ) for (auto& kv : v->o) p.env.emplace_back(kv.first, kv.second.s);
  if (!(v = root.get("progs")) || v->t != JV::ARR) { err = "no progs"; return false; }
  for (auto& pj : v->a) {
    Program pr; const JV* w;
    if ((w = pj.get("explicit_done"))) pr.explicit_done = w->i64() != 0;
    if ((w = pj.get("reuse_id"))) pr.reuse_id = w->i64() != 0;
    if ((w = pj.get("ops")) && w->t == JV::ARR) {
      for (auto& oj : w->a) {
        Op o; const JV* x;
        if (!(x = oj.get("o"))) { err = "op without name"; return false; }
        o.code = op_code_of(x->s); if (o.code < 0) { err = "unknown op " + x->s; return false; }
        if ((x = oj.get("s"))) o.slot = (int)x->i64();
        if ((x = oj.get("h"))) o.hslot = (int)x->i64();
        if ((x = oj.get("a"))) o.a = x->u64();
        if ((x = oj.get("b"))) o.b = x->u64();
        if ((x = oj.get("c"))) o.c = x->u64();
        if ((x = oj.get("d"))) o.d = x->u64();
        if ((x = oj.get("fl"))) o.flags = (uint32_t)x->u64();
        if ((x = oj.get("u"))) o.uid = (int)x->u64();
        if ((x = oj.get("f")) && x->t == JV::ARR) for (auto& fj : x->a) {
          OpFault ff; const JV* y;
          if ((y = fj.get("kind"))) ff.kind = (int)y->i64();
          if ((y = fj.get("nth"))) ff.nth = (int)y->i64();
          if ((y = fj.get("err"))) ff.err = (int)y->i64();
          if ((y = fj.get("persistent"))) ff.persistent = y->i64() != 0;
          o.faults.push_back(ff);
        }
        pr.ops.push_back(std::move(o));
      }
    }
    p.progs.push_back(std::move(pr));
  }
  return true;
}

void plan_apply_overrides(Plan& p, const std::map<std::string, std::string>& kv) {
  for (auto& e : kv) {
    const std::string& k = e.first; const char* v = e.second.c_str();
    if (k == "strategy") p.cfg.strategy = atoi(v);
    else if (k == "switch_p") p.cfg.switch_p = atof(v);
    else if (k == "hot_p") p.cfg.hot_p = atof(v);
    else if (k == "harness_p") p.cfg.harness_p = atof(v);
    else if (k == "spurious_p") p.cfg.spurious_p = atof(v);
    else if (k == "sched_seed") p.cfg.sched_seed = strtoull(v, nullptr, 0);
    else if (k == "os_seed") p.cfg.os_seed = strtoull(v, nullptr, 0);
    else if (k == "place_policy") p.cfg.place_policy = atoi(v);
    else if (k == "madv_free_mode") p.cfg.madv_free_mode = atoi(v);
    else if (k == "overcommit") p.cfg.overcommit = atoi(v);
    else if (k == "wall_limit_s") p.cfg.wall_limit_s = atof(v);
    else if (k == "trace") p.cfg.trace = atoi(v) != 0;
    else if (k == "thp_einval") p.cfg.thp_einval = atoi(v);
    else if (k == "hugetlb") p.cfg.hugetlb = atoi(v);
    else if (k == "stable_sched") p.cfg.stable_sched = atoi(v);
    else if (k == "hold_steps") p.cfg.hold_steps = strtoull(v, nullptr, 10);
    else if (k == "sb_p") p.cfg.sb_p = atof(v);
    else if (k == "place_unaligned_p") p.cfg.place_unaligned_p = atof(v);
    else if (k == "auto_advance_every") p.auto_advance_every = strtoull(v, nullptr, 0);
    else if (k == "auto_advance_ms") p.auto_advance_ms = strtoull(v, nullptr, 0);
    else if (k.compare(0, 4, "env:") == 0) {          // env:MIMALLOC_NAME=value  (empty value removes it)
      std::string n = k.substr(4); bool found = false;
      for (size_t i = 0; i < p.env.size(); i++) if (p.env[i].first == n) { found = true; if (*v) p.env[i].second = v; else { p.env.erase(p.env.begin() + (long)i); } break; }
      if (!found && *v) p.env.emplace_back(n, v);
    }
  }
}
