// simdrv -- keeps N simrun processes in flight.
//   simdrv <builddir> <jobs-file> <out-file> [-j N] [-t seconds]
// jobs-file: one job per line:  BUILD<TAB>arg<TAB>arg...      (run as <builddir>/simrun-BUILD args...)
// out-file : one line per job:  <job index><TAB><exit status><TAB><result line as printed by simrun>
#include <errno.h>
#include <fcntl.h>
#include <poll.h>
#include <signal.h>
#include <spawn.h>
#include <stdio.h>
#include <stdlib.h>
#include <string.h>
#include <sys/personality.h>
#include <sys/wait.h>
#include <time.h>
#include <unistd.h>
#include <string>
#include <vector>

extern char** environ;
struct Job { std::string build; std::vector<std::string> args; };
struct Child { pid_t pid = 0; int fd = -1; size_t job = 0; std::string out; double start = 0; };

static double now_s() { struct timespec t; clock_gettime(CLOCK_MONOTONIC, &t); return (double)t.tv_sec + (double)t.tv_nsec * 1e-9; }

int main(int argc, char** argv) {
  if (argc < 4) { fprintf(stderr, "usage: simdrv builddir jobs out [-j N] [-t sec]\n"); return 2; }
  std::string dir = argv[1]; int nj = 16; double tmo = 120;
  for (int i = 4; i < argc; i++) { if (!strcmp(argv[i], "-j") && i + 1 < argc) nj = atoi(argv[++i]); else if (!strcmp(argv[i], "-t") && i + 1 < argc) tmo = atof(argv[++i]); }
  personality(personality(0xffffffff) | ADDR_NO_RANDOMIZE);
  setenv("SIM_NO_REEXEC", "1", 1);
  std::vector<Job> jobs;
  { FILE* f = fopen(argv[2], "r"); if (!f) { perror("jobs"); return 2; }
    char* line = nullptr; size_t cap = 0; ssize_t n;
    while ((n = getline(&line, &cap, f)) > 0) {
      while (n > 0 && (line[n - 1] == '\n' || line[n - 1] == '\r')) line[--n] = 0;
      if (n == 0) continue;
      Job j; char* save = nullptr; int k = 0;
      for (char* tok = strtok_r(line, "\t", &save); tok; tok = strtok_r(nullptr, "\t", &save), k++) { if (k == 0) j.build = tok; else j.args.push_back(tok); }
      jobs.push_back(j);
    }
    free(line); fclose(f); }
  FILE* out = fopen(argv[3], "w"); if (!out) { perror("out"); return 2; }
  std::vector<Child> ch((size_t)nj);
  size_t next = 0, done = 0;
  signal(SIGPIPE, SIG_IGN);
  while (done < jobs.size()) {
    for (auto& c : ch) {
      if (c.pid != 0 || next >= jobs.size()) continue;
      const Job& j = jobs[next];
      int pfd[2]; if (pipe2(pfd, O_CLOEXEC) != 0) { perror("pipe"); return 2; }
      posix_spawn_file_actions_t fa; posix_spawn_file_actions_init(&fa);
      posix_spawn_file_actions_adddup2(&fa, pfd[1], 1);
      posix_spawn_file_actions_addopen(&fa, 2, "/dev/null", O_WRONLY, 0);
      std::string exe = dir + "/simrun-" + j.build;
      std::vector<char*> av; av.push_back((char*)exe.c_str()); for (auto& a : j.args) av.push_back((char*)a.c_str()); av.push_back(nullptr);
      pid_t pid;
      int rc = posix_spawn(&pid, exe.c_str(), &fa, nullptr, av.data(), environ);
      posix_spawn_file_actions_destroy(&fa);
      close(pfd[1]);
      if (rc != 0) { fprintf(out, "%zu\t-1\t{\"status\":\"infra\",\"oracle\":\"spawn\",\"msg\":\"posix_spawn failed %d\"}\n", next, rc); close(pfd[0]); next++; done++; continue; }
      c.pid = pid; c.fd = pfd[0]; c.job = next; c.out.clear(); c.start = now_s();
      next++;
    }
    std::vector<struct pollfd> pf; std::vector<size_t> idx;
    for (size_t i = 0; i < ch.size(); i++) if (ch[i].pid != 0) { pf.push_back({ch[i].fd, POLLIN, 0}); idx.push_back(i); }
    if (pf.empty()) continue;
    poll(pf.data(), pf.size(), 200);
    double t = now_s();
    for (size_t k = 0; k < pf.size(); k++) {
      Child& c = ch[idx[k]];
      bool eof = false;
      if (pf[k].revents & (POLLIN | POLLHUP | POLLERR)) {
        char buf[65536]; ssize_t n = read(c.fd, buf, sizeof buf);
        if (n > 0) c.out.append(buf, (size_t)n); else if (n == 0 || (n < 0 && errno != EINTR && errno != EAGAIN)) eof = true;
      }
      if (!eof && t - c.start > tmo) { kill(c.pid, SIGKILL); eof = true; c.out = "{\"status\":\"infra\",\"oracle\":\"driver_timeout\",\"msg\":\"killed by the driver\"}\n"; }
      if (eof) {
        int st = 0; waitpid(c.pid, &st, 0); close(c.fd);
        int code = WIFEXITED(st) ? WEXITSTATUS(st) : 128 + WTERMSIG(st);
        std::string line = c.out; size_t nl = line.find('\n'); if (nl != std::string::npos) line.resize(nl);
        if (line.empty()) { char b[160]; snprintf(b, sizeof b, "{\"status\":\"infra\",\"oracle\":\"no_output\",\"msg\":\"simrun ended with status %d without a result line\"}", code); line = b; }
        fprintf(out, "%zu\t%d\t%s\n", c.job, code, line.c_str());
        c.pid = 0; c.fd = -1; done++;
      }
    }
  }
  fclose(out);
  return 0;
}
