// sim.h -- shared declarations of the deterministic simulator (scheduler, simulated OS,
// virtual clock, harness).  See /verif/DESIGN.md.
#pragma once
#include <stdint.h>
#include <stddef.h>
#include <stdarg.h>
#include <string>
#include <vector>
#include <map>

// ---------------------------------------------------------------------------------
// PRNG (splitmix64 seeding, xoshiro256**)
// ---------------------------------------------------------------------------------
static inline uint64_t splitmix64(uint64_t& x) {
  uint64_t z = (x += 0x9E3779B97F4A7C15ull);
  z = (z ^ (z >> 30)) * 0xBF58476D1CE4E5B9ull;
  z = (z ^ (z >> 27)) * 0x94D049BB133111EBull;
  return z ^ (z >> 31);
}
static inline uint64_t mix64(uint64_t a, uint64_t b) {
  uint64_t x = a * 0x9E3779B97F4A7C15ull + b + 0x632BE59BD9B4E019ull;
  return splitmix64(x);
}
struct Rng {
  uint64_t s[4];
  void seed(uint64_t v) { uint64_t x = v; for (int i = 0; i < 4; i++) s[i] = splitmix64(x); }
  static inline uint64_t rotl(uint64_t x, int k) { return (x << k) | (x >> (64 - k)); }
  uint64_t next() {
    const uint64_t r = rotl(s[1] * 5, 7) * 9, t = s[1] << 17;
    s[2] ^= s[0]; s[3] ^= s[1]; s[1] ^= s[2]; s[0] ^= s[3]; s[2] ^= t; s[3] = rotl(s[3], 45);
    return r;
  }
  uint64_t below(uint64_t n) { return n == 0 ? 0 : next() % n; }            // [0,n)
  uint64_t range(uint64_t lo, uint64_t hi) { return lo + below(hi - lo + 1); } // [lo,hi]
  bool chance(double p) { return (double)(next() >> 11) * (1.0 / 9007199254740992.0) < p; }
  template <class T> const T& pick(const std::vector<T>& v) { return v[below(v.size())]; }
};

// FNV-1a style running hash
struct Hash64 {
  uint64_t h = 0xcbf29ce484222325ull;
  inline void add(uint64_t v) { h ^= v; h *= 0x100000001b3ull; h ^= (h >> 29); }
};

// ---------------------------------------------------------------------------------
// Violations
// ---------------------------------------------------------------------------------
// A violation ends the run immediately: the result line is written and the process exits.
[[noreturn]] void sim_violation(const char* oracle, const char* fmt, ...) __attribute__((format(printf, 2, 3)));
[[noreturn]] void sim_infra_error(const char* fmt, ...) __attribute__((format(printf, 1, 2)));
[[noreturn]] void sim_finish_ok();
void sim_set_last_message(const char* m);
extern const char* (*g_crash_context)();
extern bool (*g_abort_is_expected)();   // harness: an abort() right now is outside the property (debug assertions after a detected misuse)   // harness: describe what the crashing thread was doing
void sim_note(const char* fmt, ...) __attribute__((format(printf, 1, 2)));  // goes to the trace buffer (only with --trace)

// ---------------------------------------------------------------------------------
// Probes: named counters ("this rare condition was hit")
// ---------------------------------------------------------------------------------
enum Probe {
  PR_delayed_freeing_observed, PR_delayed_block_reinserted, PR_tf_collect_cas_retry, PR_free_mt_cas_retry,
  PR_page_to_full, PR_page_unfull, PR_page_retired, PR_page_freed,
  PR_segment_abandoned, PR_segment_reclaimed, PR_reclaim_on_free, PR_clear_abandoned_lost_race,
  PR_os_abandoned_list_used, PR_force_abandon, PR_bitmap_across_claim, PR_bitmap_rollback,
  PR_purge_claim_blocked_alloc, PR_commit_failed_path, PR_collect_and_retry, PR_aligned_overalloc,
  PR_unaligned_mmap_trim, PR_madv_free_kept, PR_madv_free_discarded, PR_segment_purge_fired,
  PR_arena_purge_fired, PR_spurious_cas_injected, PR_thread_id_reused, PR_lock_blocked, PR_yield_switch,
  PR_heap_absorb, PR_heap_destroy, PR_huge_alloc, PR_huge_remote_reset, PR_switch_in_free_mt,
  PR_switch_in_tf_collect, PR_switch_in_delayed_partial, PR_switch_in_reclaim, PR_switch_in_bitmap,
  PR_realloc_inplace, PR_realloc_moved, PR_zero_checked, PR_visit_checked, PR_alloc_null,
  PR_os_refused, PR_arena_alloc, PR_os_segment_alloc, PR_thread_data_cache_hit, PR_use_delayed_spin,
  PR_segment_purge_by_time, PR_arena_purge_by_time, PR_misuse_detected, PR_census, PR_giveback_checked,
  PR_hugetlb_mmap, PR_hugetlb_madvise, PR_pinned_arena, PR_arenas_8plus,
  PR__COUNT
};
extern const char* const probe_names[PR__COUNT];
extern uint64_t g_probe[PR__COUNT];
static inline void probe(Probe p, uint64_t n = 1) { g_probe[p] += n; }

// ---------------------------------------------------------------------------------
// Configuration of one run (from the command line / replay file)
// ---------------------------------------------------------------------------------
enum Strategy { ST_NONE = 0, ST_RANDOM = 1, ST_PCT = 2, ST_TARGETED = 3, ST_ROUNDROBIN = 4 };

struct SimConfig {
  uint64_t seed = 1;          // master seed
  uint64_t sched_seed = 0, os_seed = 0, entropy_seed = 0;
  // scheduler
  int      strategy = ST_NONE;
  double   switch_p = 0.0;       // ST_RANDOM / cold probability of ST_TARGETED
  double   hot_p = 0.5;          // ST_TARGETED inside hot functions
  double   harness_p = 0.2;      // switch probability at harness-level points
  int      pct_depth = 2;
  uint64_t pct_horizon = 20000;  // expected number of scheduling points
  std::vector<std::string> hot_funcs;
  double   spurious_p = 0.0;     // spurious weak-CAS failure probability
  uint64_t max_call_steps = 400000, max_run_steps = 20000000;
  // clock
  uint64_t clock_start_ns = 1000ull * 1000 * 1000 * 1000;
  uint64_t tick_ns = 0;          // per scheduling point
  // simulated OS
  int      overcommit = 0;       // content of /proc/sys/vm/overcommit_memory
  int      place_policy = 0;     // 0 honour hints/aligned, 1 unaligned when no hint honoured, 2 ignore hints + unaligned, 3 ignore hints, aligned
  double   place_unaligned_p = 0.0; // with policy 1: probability per un-hinted/hint-ignored map
  int      madv_free_mode = 0;   // 0 keep, 1 discard, 2 random per call, 3 EINVAL (unsupported)
  int      thp_einval = 0;
  double   sb_p = 0.0;           // store-buffer mode: probability that a release/relaxed atomic store is delayed past the thread's next 1-3 atomic loads
  uint64_t hold_steps = 0;       // ST_TARGETED: a thread preempted at a hot site stays descheduled for this many scheduling points (a stalled thread)
  int      stable_sched = 0;     // 1: scheduling decisions are keyed by (logical thread, operation, n-th decision in it) instead of one stream
  int      hugetlb = 0;          // explicit huge pages (mmap MAP_HUGETLB): 0 none configured (ENOMEM), 1: 2 MiB pages, 2: 2 MiB and 1 GiB pages
  int      entropy_fail = 0;     // 1: getrandom ENOSYS and /dev/urandom unavailable
  bool     trace = false;
  double   wall_limit_s = 30.0;
};

// ---------------------------------------------------------------------------------
// Scheduler interface used by the harness
// ---------------------------------------------------------------------------------
struct SimStats {
  uint64_t steps = 0, switches = 0, yields = 0, harness_points = 0, spurious = 0, lock_blocks = 0;
  uint64_t stat_points = 0;
};
extern SimConfig g_cfg;
extern SimStats  g_stats;
extern Hash64    g_event_hash;     // scheduling points + OS calls
extern Hash64    g_sched_sig;      // context switches inside hot functions (distinctness measure)
extern Hash64    g_api_hash;       // API results

typedef void (*vthread_main_t)(int vt_index, void* arg);

void     sched_init();
// run the whole simulation: creates vthread 0 running fn(arg); returns never (a vthread ends the process)
[[noreturn]] void sched_run(vthread_main_t fn, void* arg);
int      sched_spawn(vthread_main_t fn, void* arg, bool reuse_id);   // returns new vthread index
void     sched_join(int vt_index);                                   // blocks until DONE
bool     sched_is_done(int vt_index);
void     sched_barrier(int barrier_id, int parties);                 // blocks until `parties` vthreads arrived
extern const char* g_sim_build_name;                                // "REL", "SEC", "DBG" or "UBS" (set by the harness)
bool os_is_hugetlb(uint64_t addr);                                  // inside a mapping made of explicit huge pages (pinned: always resident)
void     sched_set_op(int op_index);                                 // the calling vthread starts operation op_index of its program
bool     sched_wait(uint64_t key);                                   // harness-level wait for sched_notify(key); false = gave up because nothing else could run
void     sched_notify(uint64_t key);
void     sched_os_point(int kind);                                   // preemption point right before a simulated OS call takes effect
void     sched_harness_point(int what);                              // preemption point between API calls
void     sched_call_begin();                                         // reset the per-call step budget
void     sched_set_passthrough(bool on);                             // harness-internal mimalloc calls (queries) without scheduling
void     sched_sb_flush();                                           // drain the calling thread's store buffer (store-buffer mode)
int      sched_self();
void     sched_set_logical(int id);                                  // logical thread id (program index) used for OS-call attribution
int      sched_logical();                                               // current vthread index (-1 outside)
size_t   sched_vtid(int vt_index);
int      sched_nthreads();
bool     sched_in_func(const char* func);                            // is the *last* scheduling point of the current vthread in `func`
const char* sched_last_site();
uint64_t sched_run_tls_destructor();                                 // runs mimalloc's registered key destructor for the current vthread

// virtual clock
uint64_t clock_now_ns();
void     clock_advance_ms(uint64_t ms);
extern uint64_t g_clock_advanced_ns;

// ---------------------------------------------------------------------------------
// Simulated OS
// ---------------------------------------------------------------------------------
enum OsKind { OS_MMAP = 0, OS_MUNMAP, OS_MPROTECT_RW, OS_MPROTECT_NONE, OS_MADV_DONTNEED, OS_MADV_FREE, OS_MADV_HUGE, OS_MADV_OTHER, OS__KINDS };
extern const char* const os_kind_names[OS__KINDS];

struct OsCall {
  uint8_t  kind; int8_t vt; int32_t op; int32_t err;     // err: 0 ok, else errno
  uint64_t addr, len, result; uint64_t vtime_ms; uint32_t seq_in_op; bool injected;
};

struct FaultSpec {           // attached to (vthread, op index)
  int vt = -1, op = -1;      // -1 = any
  int kind = -1;             // OsKind or -1 = any kind
  int nth = 0;               // the nth (0-based) matching call inside the op
  int err = 12;              // ENOMEM
  bool persistent = false;   // from that call on until heal
};

struct OsRegion { uint64_t start, len; uint32_t id; int vt, op; uint64_t call_no; bool donated; };

struct SimOs {
  // observation
  std::vector<OsCall> log;             // complete call log of the run
  uint64_t calls[OS__KINDS] = {0}, refused[OS__KINDS] = {0};
  uint64_t foreign_calls = 0;
  uint64_t mapped_bytes = 0, peak_mapped = 0;
};
extern SimOs g_os;

void  os_init();
void  os_set_context(int vt, int op);                   // which harness op is executing (for fault attachment / log)
void  os_set_faults(const std::vector<FaultSpec>& f);
void  os_heal();                                        // stop persistent refusals
bool  os_any_fault_active();
uint64_t os_faults_fired();
// page table queries (addresses inside the simulated window)
bool  os_in_window(const void* p);
bool  os_range_mapped(const void* p, size_t len);       // fully inside live mappings
bool  os_range_accessible(const void* p, size_t len);   // mapped and PROT_READ|WRITE
size_t os_mapped_bytes();
size_t os_accessible_bytes();
size_t os_resident_bytes(uint64_t start, uint64_t len); // via mincore on the backing
std::vector<OsRegion> os_regions();
// reserve memory for the harness itself (donated arenas): real mapping inside the window, tracked as `donated`
void* os_harness_map(size_t len, size_t align, size_t misalign, bool accessible);
// a hook the harness installs to be told about purge-type calls (madvise DONTNEED/FREE, mprotect NONE) *before* they happen
typedef void (*os_purge_hook_t)(int kind, uint64_t addr, uint64_t len);
extern os_purge_hook_t g_os_purge_hook;
const char* os_describe_addr(const void* p, char* buf, size_t n);

// ---------------------------------------------------------------------------------
// result output
// ---------------------------------------------------------------------------------
struct JsonOut {   // tiny JSON object writer
  std::string s; bool first = true;
  void key(const char* k);
  void kv(const char* k, uint64_t v);
  void kvi(const char* k, int64_t v);
  void kvd(const char* k, double v);
  void kvs(const char* k, const std::string& v);
  void kvraw(const char* k, const std::string& raw);
  static std::string esc(const std::string& v);
};
extern void (*g_result_extra)(JsonOut& o);   // the harness adds its fields to the result line
