// harness.h -- shadow heap (reference model) shared between harness.cc and oracles.cc
#pragma once
#include "plan.h"
#include <mimalloc.h>

struct Block {
  uint8_t* p = nullptr; size_t req = 0, usable = 0; uint64_t id = 0;
  size_t align = 0, offset = 0;
  bool zchain = false;        // zero-initialised lineage: pattern over [0,req) only; the slack must stay zero
  bool filled = false;
  int  heap = -1;             // model heap index, -1 = orphan (owner terminated / heap abandoned)
  int  prog = -1;             // allocating logical thread
  int  subproc = 0;
  int  slot = -1;
  bool full_fill = false;     // every byte carries the pattern even if the block is huge
  bool odd_origin = false;    // the pointer descends (in place) from an aligned_at allocation: natural alignment is no obligation
  bool tagged = false;        // allocated in a heap with a tag != 0
  int  orphan_kind = 0;       // 0 none, 1 owner thread ended, 2 its tagged heap was deleted, 3 its arena-bound heap was deleted
};

enum HeapKind { HK_BACKING = 0, HK_NEW = 1, HK_EX = 2, HK_ARENA = 3 };
struct MHeap {
  mi_heap_t* h = nullptr; int prog = -1; int kind = HK_BACKING; int tag = 0; bool destroyable = false;
  int arena_slot = -1; bool alive = true; int hslot = -1;
};
struct MArena { mi_arena_id_t id = 0; uint8_t* start = nullptr; size_t size = 0; bool exclusive = false; uint8_t* region = nullptr; size_t region_size = 0; bool donated = false; bool pinned = false; };

struct ThreadCtx {
  int prog = -1; int vt = -1;
  int hslots[8]; int backing = -1; int deflt = -1;     // model heap indexes
  bool started = false, done = false, initialized = false;
  bool alloc_ok = false;     // some allocation of this thread succeeded: its thread-local heap exists (it may not under injected mmap refusals)
  int cur_op = -1;
  int subproc = 0;
  int expect_err_mask = 0;   // errors the current operation may legitimately report (bit per class)
  int got_err_mask = 0; int got_err_count = 0;
  bool misuse_in_progress = false;   // C17 (debug build): an internal assertion after the error was reported is outside the property
  char note[160];            // context appended to crash/abort reports of the current operation
};
enum { EB_ENOMEM = 1, EB_EOVERFLOW = 2, EB_EAGAIN = 4, EB_EFAULT = 8, EB_EINVAL = 16, EB_OTHER = 32 };

struct Harness {
  const Plan* plan = nullptr;
  std::vector<Block*> slots;
  std::map<uintptr_t, Block*> live;
  std::vector<Block*> limbo;          // blocks taken out of `live` by an operation that is still in progress (realloc): thread exit must still see them
  std::vector<MHeap> heaps;
  std::vector<MArena> arenas;
  std::vector<mi_subproc_id_t> subprocs;
  std::vector<ThreadCtx> threads;
  uint64_t next_block_id = 1;
  Rng vrng;
  bool any_fault_fired_or_pending = false;
  uint64_t ops_executed = 0, ops_noop = 0, allocs = 0, frees = 0, reallocs = 0, nulls = 0;
  uint64_t bytes_verified = 0;
  uint64_t footprint_marks = 0; std::vector<uint64_t> fp_mapped, fp_resident, fp_accessible, fp_work; uint64_t work_hash = 0; uint64_t activity_rounds = 0;
  std::string sample_ops;
  uint64_t misuse_expected = 0, misuse_detected = 0;
  uint64_t pc_max_pages = 0, pc_max_accessible = 0, pc_samples = 0;
  struct Watch { uintptr_t p; size_t usable; size_t log_index; uint64_t t_ms; bool dropped; uint64_t rounds_at_free; };
  size_t tag_orphans_ever = 0;  // blocks that were live in a tagged heap when it was deleted / its thread ended
  size_t orphan_frees = 0;      // blocks of terminated threads (not adopted yet) freed by another thread: such a free may stay pending in the abandoned page
  std::vector<Watch> watch; std::vector<uintptr_t> sentinel_bases; std::vector<uintptr_t> sentinel_alloc_addr;   // sentinel_alloc_addr[i]: 0 for a page free, else the address of the freshly allocated page
  struct Zombie { uint8_t* p; size_t usable; int heap; int prog; bool reissued; };
  std::vector<Zombie> zombies;           // blocks freed once by a C17 'armed' double free; the second free comes later unless the address was re-issued
  bool forced_abandon_possible = false;   // target_segments_per_thread > 0 or mi_collect_reduce used: pages may leave their heap
};
extern Harness H;
extern __thread ThreadCtx* T;

bool is_sec_build(); bool is_dbg_build(); bool is_padded_build();
void block_fill(Block* b);
void block_verify(Block* b, const char* when);
void usable_verify(Block* b, const char* when);
void model_insert(Block* b, const char* what);
void model_remove(Block* b);
int  heap_for_alloc(const Op& op);       // model heap index used by an allocating op
mi_heap_t* heap_ptr(int mh);
void resolve_backing();
void verify_all_live(const char* when);
void expect_errors(int mask);
void run_oracle_op(const Op& op);        // oracles.cc
void oracle_after_heap_op();             // ownership sample (O7)
void collect_all_heaps(bool force);      // mi_heap_collect on every live heap of the calling thread, then mi_collect
