#!/usr/bin/env python3
"""Build the simulator and the code under test (three builds of /repo/src/static.c with the seams of
DESIGN.md section 2) into /verif/build/<hash>/ where <hash> covers /repo/src, /repo/include and /verif/sim.
Prints the build directory. Rebuilds only when the hash changes."""
import hashlib, os, subprocess, sys, shutil, concurrent.futures as cf

VERIF = os.path.dirname(os.path.dirname(os.path.abspath(__file__)))
REPO = os.environ.get('VERIF_REPO', '/repo')
SIM = os.path.join(VERIF, 'sim')
BUILDS = {
    'REL': ['-O2', '-DNDEBUG'],
    'SEC': ['-O2', '-DNDEBUG', '-DMI_SECURE=4'],
    'DBG': ['-O1', '-DMI_DEBUG=3'],
    # release semantics; undefined behaviour (signed overflow, bad shifts, misaligned / null member access, array bounds) traps
    'UBS': ['-O1', '-DNDEBUG', '-fsanitize=undefined', '-fsanitize-undefined-trap-on-error'],
}
SEAMS = ['-DMI_VERIF_HOOKS="%s/mi_verif_hooks.h"' % SIM, '-DMI_PRIM_THREAD_ID=mi_sim_tid', '-DMI_PRIM_HAS_PROCESS_ATTACH',
         '-Dmmap=sim_mmap', '-Dmunmap=sim_munmap', '-Dmprotect=sim_mprotect', '-Dmadvise=sim_madvise',
         '-Dclock_gettime=sim_clock_gettime', '-Dsyscall=sim_syscall',
         '-Dpthread_key_create=sim_key_create', '-Dpthread_setspecific=sim_setspecific', '-Dpthread_key_delete=sim_key_delete']
SIM_SRCS_COMMON = ['core.cc', 'simos.cc', 'plan_json.cc', 'families.cc']
SIM_SRCS_PER_BUILD = ['harness.cc', 'oracles.cc', 'extra.cc', 'main.cc']

def tree_hash():
    h = hashlib.sha256()
    for root in (os.path.join(REPO, 'src'), os.path.join(REPO, 'include'), SIM):
        for d, dirs, files in sorted(os.walk(root)):
            dirs.sort()
            for f in sorted(files):
                p = os.path.join(d, f)
                h.update(p.encode()); h.update(b'\0')
                with open(p, 'rb') as fh: h.update(fh.read())
    h.update(repr(BUILDS).encode()); h.update(repr(SEAMS).encode())
    return h.hexdigest()[:16]

def run(cmd):
    r = subprocess.run(cmd, stdout=subprocess.PIPE, stderr=subprocess.STDOUT, text=True)
    if r.returncode != 0:
        sys.stderr.write('BUILD FAILED: %s\n%s\n' % (' '.join(cmd), r.stdout)); raise SystemExit(2)
    return r.stdout

def ensure(builds=('REL', 'SEC', 'DBG', 'UBS'), quiet=True):
    hh = tree_hash()
    root = os.path.join(VERIF, 'build')
    out = os.path.join(root, hh)
    need = [b for b in builds if not os.path.exists(os.path.join(out, 'simrun-' + b))] + ([] if os.path.exists(os.path.join(out, 'simdrv')) else ['drv'])
    if not need: return out
    os.makedirs(out, exist_ok=True)
    # remove stale build directories (keep disk use bounded)
    olds = sorted([os.path.join(root, d) for d in os.listdir(root) if d != hh and len(d) == 16 and os.path.isdir(os.path.join(root, d))], key=os.path.getmtime, reverse=True)
    for p in olds[int(os.environ.get('VERIF_KEEP_BUILDS', '3')):]: shutil.rmtree(p, ignore_errors=True)
    jobs = []
    cxx = ['g++', '-std=c++17', '-O2', '-g1', '-fno-pie', '-I' + os.path.join(REPO, 'include'), '-I' + SIM, '-Wall', '-Wno-unused-parameter']
    for s in SIM_SRCS_COMMON:
        o = os.path.join(out, s.replace('.cc', '.o'))
        if not os.path.exists(o): jobs.append(cxx + ['-c', os.path.join(SIM, s), '-o', o])
    for b in builds:
        if os.path.exists(os.path.join(out, 'simrun-' + b)): continue
        jobs.append(['gcc', '-std=gnu11', '-I' + os.path.join(REPO, 'include'), '-I' + os.path.join(REPO, 'src'), '-fno-pie', '-g1', '-w'] + SEAMS + BUILDS[b] +
                    ['-c', os.path.join(REPO, 'src', 'static.c'), '-o', os.path.join(out, 'mi-%s.o' % b)])
        jobs.append(['gcc', '-std=gnu11', '-I' + os.path.join(REPO, 'include'), '-I' + os.path.join(REPO, 'src'), '-fno-pie', '-g1', '-w'] + SEAMS + BUILDS[b] +
                    ['-c', os.path.join(SIM, 'peek.c'), '-o', os.path.join(out, 'peek-%s.o' % b)])      # reads mimalloc's internal types: same flags as the code under test
        for s in SIM_SRCS_PER_BUILD:
            jobs.append(cxx + ['-DSIM_BUILD="%s"' % b, '-c', os.path.join(SIM, s), '-o', os.path.join(out, s.replace('.cc', '-%s.o' % b))])
    if not os.path.exists(os.path.join(out, 'simdrv')):
        jobs.append(['g++', '-std=c++17', '-O2', '-g1', os.path.join(SIM, 'simdrv.cpp'), '-o', os.path.join(out, 'simdrv'), '-lpthread'])
    with cf.ThreadPoolExecutor(16) as ex: list(ex.map(run, jobs))
    for b in builds:
        if os.path.exists(os.path.join(out, 'simrun-' + b)): continue
        objs = [os.path.join(out, s.replace('.cc', '.o')) for s in SIM_SRCS_COMMON] + [os.path.join(out, s.replace('.cc', '-%s.o' % b)) for s in SIM_SRCS_PER_BUILD] + [os.path.join(out, 'mi-%s.o' % b), os.path.join(out, 'peek-%s.o' % b)]
        run(['g++', '-no-pie', '-o', os.path.join(out, 'simrun-' + b)] + objs + ['-lpthread'])
    return out

if __name__ == '__main__':
    print(ensure())
