#!/usr/bin/env python3
"""check -- run the simulated checks of one property (see DESIGN.md sections 9-11).

  ./check <ID> [quick|thorough]      run the check; exit 0 = held on everything explored,
                                     exit 1 + 'VIOLATION property=<id> replay=<path>' otherwise, exit 2 = machinery error
  ./check --replay FILE              replay a replay file in a fresh process
  ./check selftest [quick|thorough]  determinism self-test of the machinery
"""
import hashlib, json, os, re, subprocess, sys, tempfile, time, shutil

VERIF = os.path.dirname(os.path.dirname(os.path.abspath(__file__)))
sys.path.insert(0, os.path.join(VERIF, 'tools'))
import simbuild
from props import PROPS, ASSUMPTIONS, COMPONENTS

NCPU = 16

def seed_of(base, family, i):
    h = hashlib.sha256(('%d/%s/%d' % (base, family, i)).encode()).digest()
    return int.from_bytes(h[:8], 'big') >> 1 or 1

def run_jobs(bdir, jobs, timeout=180, workers=NCPU):
    """jobs: list of (build, [args]) -> list of (exit code, result dict)"""
    if not jobs: return []
    td = tempfile.mkdtemp(prefix='vjobs-', dir=os.path.join(VERIF, 'build'))
    try:
        jf, of = os.path.join(td, 'jobs'), os.path.join(td, 'out')
        with open(jf, 'w') as f:
            for b, a in jobs: f.write('\t'.join([b] + [str(x) for x in a]) + '\n')
        r = subprocess.run([os.path.join(bdir, 'simdrv'), bdir, jf, of, '-j', str(workers), '-t', str(timeout)])
        if r.returncode != 0: raise SystemExit(2)
        res = [None] * len(jobs)
        with open(of) as f:
            for line in f:
                idx, code, js = line.rstrip('\n').split('\t', 2)
                try: d = json.loads(js)
                except Exception: d = {'status': 'infra', 'oracle': 'bad_result_line', 'msg': js[:300]}
                res[int(idx)] = (int(code), d)
        for i, x in enumerate(res):
            if x is None: res[i] = (-1, {'status': 'infra', 'oracle': 'missing', 'msg': 'no result'})
        return res
    finally:
        shutil.rmtree(td, ignore_errors=True)

def simrun(bdir, build, args, timeout=120):
    env = dict(os.environ); env['SIM_NO_REEXEC'] = '1'
    r = subprocess.run(['setarch', '-R', os.path.join(bdir, 'simrun-' + build)] + [str(a) for a in args], stdout=subprocess.PIPE, stderr=subprocess.DEVNULL, text=True, timeout=timeout, env=env)
    line = r.stdout.split('\n')[0] if r.stdout else ''
    try: return r.returncode, json.loads(line)
    except Exception: return r.returncode, {'status': 'infra', 'oracle': 'bad_result_line', 'msg': r.stdout[:300]}

def dump_plan(bdir, build, family, seed, extra=()):
    env = dict(os.environ); env['SIM_NO_REEXEC'] = '1'
    r = subprocess.run([os.path.join(bdir, 'simrun-' + build), '--family', family, '--seed', str(seed), '--dump-plan'] + list(extra), stdout=subprocess.PIPE, text=True, env=env)
    return json.loads(r.stdout)

_pc_cache = {}
def resolve_pc(bdir, build, res):
    """crash reports carry the faulting pc; name the function (non-PIE binary, so the address is static)"""
    m = re.search(r' pc=(0x[0-9a-f]+)', res.get('msg', ''))
    if not m or 'crash_func' in res: return
    key = (build, m.group(1))
    if key not in _pc_cache:
        try:
            # -i: the first function printed is the innermost (inlined) one, i.e. the code that actually faulted
            out = subprocess.run(['addr2line', '-f', '-i', '-e', os.path.join(bdir, 'simrun-' + build), m.group(1)], stdout=subprocess.PIPE, text=True, timeout=20).stdout.split('\n')
            _pc_cache[key] = out[0].strip() or '??'
        except Exception: _pc_cache[key] = '??'
    res['crash_func'] = _pc_cache[key]
    res['msg'] = res['msg'].replace(m.group(0), ' in %s()' % _pc_cache[key])

def dump_plan_args(bdir, build, args):
    env = dict(os.environ); env['SIM_NO_REEXEC'] = '1'
    r = subprocess.run([os.path.join(bdir, 'simrun-' + build)] + [str(a) for a in args] + ['--dump-plan'], stdout=subprocess.PIPE, text=True, env=env)
    return json.loads(r.stdout)

# ---------------------------------------------------------------------------------------------
# known findings
# ---------------------------------------------------------------------------------------------
def load_known():
    p = os.environ.get('VERIF_KNOWN') or os.path.join(VERIF, 'known_findings.json')   # VERIF_KNOWN: triage only (e.g. an empty list to see what a finding hides)
    if not os.path.exists(p): return []
    return json.load(open(p)).get('findings', [])

def match_known(known, prop, res):
    for k in known:
        if k.get('status') != 'open': continue
        if prop not in k.get('properties', [k.get('property')]): continue
        if k.get('oracle') and k['oracle'] != res.get('oracle'): continue
        if k.get('oracle_any') and res.get('oracle') not in k['oracle_any']: continue
        if k.get('msg_regex') and not re.search(k['msg_regex'], res.get('msg', '')): continue
        if k.get('build') and k['build'] != res.get('build'): continue
        return k
    return None

# ---------------------------------------------------------------------------------------------
# minimisation
# ---------------------------------------------------------------------------------------------
class Minimiser:
    def __init__(self, bdir, build, plan, oracle, budget_runs=300, budget_s=90, crash_func=None, avoid=None):
        self.bdir, self.build, self.oracle = bdir, build, oracle
        self.avoid = avoid                # (known, pid): a shrunk plan must not turn into an instance of an open known finding
        self.crash_func = crash_func      # crashes: stay with the function that faulted (one violation class, not "any crash")
        self.best = plan; self.runs = 0; self.t0 = time.time(); self.budget_runs, self.budget_s = budget_runs, budget_s
        self.tmp = tempfile.mkdtemp(prefix='vmin-', dir=os.path.join(VERIF, 'build'))
    def ok(self): return self.runs < self.budget_runs and time.time() - self.t0 < self.budget_s
    def fails(self, plan):
        self.runs += 1
        p = os.path.join(self.tmp, 'cand.json')
        json.dump({'plan': plan}, open(p, 'w'))
        try: code, res = simrun(self.bdir, self.build, ['--replay', p], timeout=60)
        except subprocess.TimeoutExpired: return False
        if not (res.get('status') == 'violation' and res.get('oracle') == self.oracle): return False
        if self.avoid and match_known(self.avoid[0], self.avoid[1], dict(res, build=self.build)) is not None: return False
        if self.crash_func and self.oracle == 'crash':
            resolve_pc(self.bdir, self.build, res)
            if res.get('crash_func') != self.crash_func: return False
        return True
    def nops(self, plan): return sum(len(pr['ops']) for pr in plan['progs'])
    def run(self):
        import copy
        plan = self.best
        # 1. ddmin over the operations of each program (later programs first: they are usually the noise)
        for pi in reversed(range(len(plan['progs']))):
            ops = plan['progs'][pi]['ops']
            chunk = max(1, len(ops) // 2)
            while chunk >= 1 and self.ok():
                i = 0; progress = False
                while i < len(plan['progs'][pi]['ops']) and self.ok():
                    cand = copy.deepcopy(plan)
                    del cand['progs'][pi]['ops'][i:i + chunk]
                    if self.fails(cand): plan = cand; progress = True
                    else: i += chunk
                if chunk == 1 and not progress: break
                chunk = chunk // 2 if chunk > 1 else (1 if progress else 0)
        # 2. simpler schedule / environment
        for key, val in (('spurious_p', 0.0), ('tick_ns', 0), ('strategy', 0), ('entropy_fail', 0), ('thp_einval', 0), ('place_policy', 0), ('madv_free_mode', 0), ('overcommit', 0)):
            if not self.ok(): break
            if plan['cfg'].get(key) in (val, None): continue
            cand = copy.deepcopy(plan); cand['cfg'][key] = val
            if self.fails(cand): plan = cand
        for k in list(plan.get('env', {}).keys()):
            if not self.ok(): break
            cand = copy.deepcopy(plan); del cand['env'][k]
            if self.fails(cand): plan = cand
        # 3. drop faults one by one
        for pi, pr in enumerate(plan['progs']):
            for oi, op in enumerate(pr['ops']):
                if 'f' in op and self.ok():
                    cand = copy.deepcopy(plan); del cand['progs'][pi]['ops'][oi]['f']
                    if self.fails(cand): plan = cand
        self.best = plan
        shutil.rmtree(self.tmp, ignore_errors=True)
        return plan

# ---------------------------------------------------------------------------------------------
# evidence
# ---------------------------------------------------------------------------------------------
def op_str(o):
    s = o['o']
    for k in ('s', 'h', 'a', 'b', 'c', 'd'):
        if k in o: s += ' %s=%s' % (k, o[k])
    if 'f' in o: s += ' faults=%s' % json.dumps(o['f'])
    return s

def sample_of(bdir, build, family, seed, res, args=None):
    try: plan = dump_plan_args(bdir, build, args) if args else dump_plan(bdir, build, family, seed)
    except Exception: return {'family': family, 'seed': seed}
    progs = []
    for pr in plan['progs'][:6]:
        progs.append({'n_ops': len(pr['ops']), 'first_ops': [op_str(o) for o in pr['ops'][:10]]})
    c = plan['cfg']
    return {'family': family, 'seed': seed, 'build': build, 'env': plan.get('env', {}),
            'scheduler': {'strategy': ['none', 'random', 'pct', 'targeted', 'roundrobin'][c['strategy']], 'switch_p': c['switch_p'], 'hot_p': c['hot_p'], 'pct_depth': c['pct_depth'], 'hot_funcs': c.get('hot_funcs', [])[:6], 'spurious_p': c['spurious_p']},
            'os': {'overcommit': c['overcommit'], 'place_policy': c['place_policy'], 'madv_free_mode': c['madv_free_mode']},
            'programs': progs,
            'result': {k: res.get(k) for k in ('status', 'steps', 'switches', 'threads', 'os_calls', 'probes', 'event_hash', 'sim_ms') if k in res}}

def merge_counts(dst, src):
    for k, v in (src or {}).items(): dst[k] = dst.get(k, 0) + v

# ---------------------------------------------------------------------------------------------
# the check of one property
# ---------------------------------------------------------------------------------------------
def check_property(pid, tier, base_seed, out=sys.stdout, write_evidence=True, extra_overrides=(), replay_dir=None):
    if os.environ.get('VERIF_SCRATCH'): write_evidence = False; replay_dir = replay_dir or os.environ['VERIF_SCRATCH']
    spec = PROPS[pid]
    t0 = time.time()
    bdir = simbuild.ensure()
    known = load_known()
    n_total = spec['runs'][tier]
    time_budget = spec.get('budget_s', {'quick': 100, 'thorough': 1500})[tier]
    fams = spec['families']       # list of (family, weight, [builds])
    wsum = sum(w for _, w, _ in fams)
    jobs = []; meta = []; replays = {}
    for fam, w, builds in fams:
        n = max(len(builds), int(round(n_total * w / wsum)))
        for i in range(n):
            b = builds[i % len(builds)]
            sd = seed_of(base_seed, fam, i)
            jobs.append((b, ['--family', fam, '--seed', sd] + list(extra_overrides)))
            meta.append((fam, b, sd))
    # special generators (fault enumeration etc.) add replay-file jobs
    jobtmp = None; extra_cov = {}
    if spec.get('jobgen'):
        jobtmp = tempfile.mkdtemp(prefix='vgen-', dir=os.path.join(VERIF, 'build'))
        for (b, path, fam, sd) in spec['jobgen'](dict(bdir=bdir, tmp=jobtmp, tier=tier, seed=base_seed, simrun=simrun, dump_plan=dump_plan, seed_of=seed_of, cov=extra_cov)):
            args = path if isinstance(path, list) else ['--replay', path]
            jobs.append((b, args)); meta.append((fam, b, sd)); replays[len(jobs) - 1] = args
    results = []
    # run in slices so that the time budget is respected
    slice_n = 2000
    done = 0
    while done < len(jobs):
        if time.time() - t0 > time_budget and done > 0: break
        part = jobs[done:done + slice_n]
        results.extend(run_jobs(bdir, part, timeout=spec.get('run_timeout', 120)))
        done += len(part)
    meta = meta[:len(results)]
    post = spec.get('post')           # optional python-side oracle over the batch (e.g. C08 bound)
    # aggregate
    agg = {'runs': len(results), 'ok': 0, 'violation': 0, 'infra': 0, 'steps': 0, 'switches': 0, 'sim_ms': 0, 'ops': 0, 'threads_max': 0,
           'probes': {}, 'os_calls': {}, 'os_refused': {}, 'faults_fired': 0, 'by_family': {}, 'by_build': {}, 'spurious': 0, 'yields': 0, 'lock_blocks': 0}
    distinct = set(); distinct_nt = set()
    nontrivial = spec.get('nontrivial')
    viol = []; infra = []
    for ji, ((code, r), (fam, b, sd)) in enumerate(zip(results, meta)):
        r['_job'] = ji
        st = r.get('status')
        agg[st if st in ('ok', 'violation', 'infra') else 'infra'] += 1
        f = agg['by_family'].setdefault(fam, {'runs': 0, 'violations': 0}); f['runs'] += 1
        agg['by_build'][b] = agg['by_build'].get(b, 0) + 1
        if st == 'violation': viol.append((fam, b, sd, r)); f['violations'] += 1
        elif st != 'ok': infra.append((fam, b, sd, r))
        for k in ('steps', 'switches', 'sim_ms', 'ops', 'faults_fired', 'spurious', 'yields', 'lock_blocks'): agg[k] += r.get(k, 0)
        if 'sb_buffered' in r: agg['sb_runs'] = agg.get('sb_runs', 0) + 1; agg['sb_buffered'] = agg.get('sb_buffered', 0) + r.get('sb_buffered', 0); agg['sb_overtaken'] = agg.get('sb_overtaken', 0) + r.get('sb_overtaken', 0)
        agg['threads_max'] = max(agg['threads_max'], r.get('threads', 0))
        merge_counts(agg['probes'], r.get('probes')); merge_counts(agg['os_calls'], r.get('os_calls')); merge_counts(agg['os_refused'], r.get('os_refused'))
        sig = (r.get('api_hash'), r.get('sched_sig'), r.get('event_hash'))
        distinct.add(sig)
        if st == 'ok' and (nontrivial is None or nontrivial(r)): distinct_nt.add((r.get('api_hash'), r.get('sched_sig')) if spec.get('distinct_by', 'api+sched') == 'api+sched' else r.get('event_hash'))
    wall = time.time() - t0
    # infrastructure errors: the machinery is broken, nothing is believed
    if infra:
        fam, b, sd, r = infra[0]
        out.write('MACHINERY-ERROR property=%s runs=%d first: family=%s build=%s seed=%d %s: %s\n' % (pid, len(infra), fam, b, sd, r.get('oracle'), r.get('msg')))
    # violations: gate, classify, minimise
    exit_code = 0
    reported = []
    known_printed = set()
    classes = {}
    for v in viol: resolve_pc(bdir, v[1], v[3])
    # (runs that match an open known finding form classes of their own: a finding never hides a run of the same oracle that does not match it)
    def _kid(v):
        k = match_known(known, pid, v[3]); return k['id'] if k else ''
    for v in viol: classes.setdefault((v[3].get('oracle'), v[1], v[3].get('crash_func', ''), _kid(v)), []).append(v)
    replay_dir = replay_dir or os.path.join(VERIF, 'replays')
    os.makedirs(replay_dir, exist_ok=True)
    for (oracle, b, _cf, _kn), vs in sorted(classes.items(), key=lambda kv: str(kv[0])):
        fam, b, sd, r = vs[0]
        kn = match_known(known, pid, r)
        if r.get('_job') in replays: plan = dump_plan_args(bdir, b, replays[r['_job']])
        else: plan = dump_plan(bdir, b, fam, sd, list(extra_overrides))
        tmpd = tempfile.mkdtemp(prefix='vgate-', dir=os.path.join(VERIF, 'build'))
        rp = os.path.join(tmpd, 'r.json'); json.dump({'plan': plan}, open(rp, 'w'))
        # gate: fresh-process replay must reproduce class and event hash, twice
        g1 = simrun(bdir, b, ['--replay', rp])[1]; g2 = simrun(bdir, b, ['--replay', rp])[1]
        shutil.rmtree(tmpd, ignore_errors=True)
        if oracle == 'hang' and g1.get('oracle') == 'hang' and g2.get('oracle') == 'hang': pass    # a hang has no final state to hash: both replays must hang
        elif oracle == 'hang' and g1.get('status') == 'ok' and g2.get('status') == 'ok':
            # the wall-clock watchdog fired on a run that completes when replayed (twice): the machine was overloaded, the run was not stuck
            out.write('note: %d run(s) of %s (build %s) hit the wall-clock limit under load and complete on replay; not counted\n' % (len(vs), fam, b))
            continue
        elif not (g1.get('oracle') == oracle and g2.get('oracle') == oracle and g1.get('event_hash') == r.get('event_hash') == g2.get('event_hash')):
            out.write('MACHINERY-ERROR property=%s violation class %s (family %s build %s seed %d) does not replay identically: %s/%s vs %s\n' % (pid, oracle, fam, b, sd, g1.get('oracle'), g1.get('event_hash'), r.get('event_hash')))
            exit_code = max(exit_code, 2); continue
        if kn is not None:
            if kn['id'] not in known_printed:
                known_printed.add(kn['id'])
                out.write('KNOWN-FINDING: property=%s %s [%s; e.g. family=%s build=%s seed=%d]\n' % (pid, kn.get('title', kn['what'][:200]), kn['id'], fam, b, sd))
            reported.append({'oracle': oracle, 'build': b, 'known': kn['id'], 'runs': len(vs)})
            continue
        mn = Minimiser(bdir, b, plan, oracle, budget_runs=(6 if oracle == 'hang' else spec.get('min_runs', 450 if len(plan.get('progs', [])) > 1 else 250)), budget_s=spec.get('min_s', 90 if len(plan.get('progs', [])) > 1 else 60), crash_func=r.get('crash_func'), avoid=(known, pid))
        small = mn.run()
        rp = os.path.join(replay_dir, '%s-%s-%s-%d.json' % (pid, oracle, b, sd))
        json.dump({'property': pid, 'family': fam, 'build': b, 'seed': sd, 'plan': small}, open(rp, 'w'), indent=0)
        code, fin = simrun(bdir, b, ['--replay', rp])
        if not (fin.get('status') == 'violation' and fin.get('oracle') == oracle):
            json.dump({'property': pid, 'family': fam, 'build': b, 'seed': sd, 'plan': plan}, open(rp, 'w'), indent=0)
            code, fin = simrun(bdir, b, ['--replay', rp])
        resolve_pc(bdir, b, fin)
        d = json.load(open(rp)); d['expected'] = {'oracle': fin.get('oracle'), 'msg': fin.get('msg'), 'event_hash': fin.get('event_hash'), 'prog': fin.get('prog'), 'op': fin.get('op'), 'op_name': fin.get('op_name')}
        d['minimisation'] = {'ops_before': sum(len(p['ops']) for p in plan['progs']), 'ops_after': sum(len(p['ops']) for p in small['progs']), 'reruns': mn.runs}
        json.dump(d, open(rp, 'w'), indent=0)
        out.write('VIOLATION property=%s replay=%s\n' % (pid, rp))
        out.write('  class=%s build=%s family=%s seed=%d runs_in_batch=%d ops %d->%d\n  %s\n' % (oracle, b, fam, sd, len(vs), d['minimisation']['ops_before'], d['minimisation']['ops_after'], fin.get('msg')))
        reported.append({'oracle': oracle, 'build': b, 'replay': rp, 'runs': len(vs), 'msg': fin.get('msg')})
        exit_code = max(exit_code, 1)
    if infra: exit_code = 2
    # reach: probes that must be non-zero
    unreached = [p for p in spec.get('must_reach', []) if agg['probes'].get(p, 0) == 0]
    for p in unreached: out.write('UNREACHED %s (property %s): the batch never hit this condition\n' % (p, pid))
    # evidence
    if write_evidence:
        samples = []
        seen_f = set()
        for ji, ((code, r), (fam, b, sd)) in enumerate(zip(results, meta)):
            if fam in seen_f or r.get('status') != 'ok': continue
            if nontrivial is not None and not nontrivial(r): continue
            seen_f.add(fam); samples.append(sample_of(bdir, b, fam, sd, r, replays.get(ji)))
            if len(samples) >= 3: break
        if not samples and results: samples.append(sample_of(bdir, meta[0][1], meta[0][0], meta[0][2], results[0][1]))
        ev = {'property_id': pid, 'tier': tier, 'seed': base_seed, 'level': spec.get('level', 'exploration'),
              'coverage': {'evaluations': len(results), 'distinct_nontrivial': len(distinct_nt), 'rule': spec['rule'], 'samples': samples,
                           'distinct_executions': len(distinct), 'runs_per_hour': int(len(results) / max(wall, 1e-3) * 3600), 'simulated_time_ms': agg['sim_ms'],
                           'scheduling_points': agg['steps'], 'context_switches': agg['switches'], 'yields': agg['yields'], 'lock_blocks': agg['lock_blocks'], 'operations': agg['ops'], 'max_threads': agg['threads_max'],
                           'fault_kinds_fired': dict(agg['os_refused'], spurious_cas=agg['spurious'], injected_os_faults=agg['faults_fired'], store_buffer_runs=agg.get('sb_runs', 0), stores_buffered=agg.get('sb_buffered', 0), loads_that_overtook_a_buffered_store=agg.get('sb_overtaken', 0)),
                           'os_calls': agg['os_calls'], 'probes': agg['probes'], 'unreached_probes': unreached,
                           'by_family': agg['by_family'], 'by_build': agg['by_build'], 'first_seeds': [m[2] for m in meta[:5]],
                           'components': COMPONENTS, 'status_counts': {k: agg[k] for k in ('ok', 'violation', 'infra')}, 'reported': reported},
              'assumptions': ASSUMPTIONS + spec.get('assumptions', []), 'wall_s': round(wall, 2), 'violations': sum(1 for x in reported if 'replay' in x)}
        if spec.get('exhaustive_note'): ev['coverage']['exhaustive_dimension'] = spec['exhaustive_note']
        ev['coverage'].update(extra_cov)
        os.makedirs(os.path.join(VERIF, 'evidence'), exist_ok=True)
        json.dump(ev, open(os.path.join(VERIF, 'evidence', pid + '.json'), 'w'), indent=1)
    if jobtmp: shutil.rmtree(jobtmp, ignore_errors=True)
    out.write('%s %s: %d runs (%d ok, %d violating, %d infra) in %.1fs; %d distinct non-trivial; %d scheduling points, %d switches\n' % (pid, tier, len(results), agg['ok'], agg['violation'], agg['infra'], wall, len(distinct_nt), agg['steps'], agg['switches']))
    return exit_code

def replay(path):
    bdir = simbuild.ensure()
    d = json.load(open(path))
    b = d.get('build') or d.get('plan', {}).get('build') or 'REL'
    code, r = simrun(bdir, b, ['--replay', path])
    print(json.dumps(r))
    exp = d.get('expected')
    if r.get('status') == 'violation':
        print('VIOLATION property=%s replay=%s' % (d.get('property', d.get('plan', {}).get('property', '?')), path))
        if exp and (exp.get('oracle') != r.get('oracle') or exp.get('event_hash') != r.get('event_hash')): print('note: differs from the recorded run (%s %s)' % (exp.get('oracle'), exp.get('event_hash')))
        return 1
    return 0 if r.get('status') == 'ok' else 2

def main():
    a = sys.argv[1:]
    if not a: print(__doc__); return 2
    base_seed = int(os.environ.get('VERIF_SEED', '1'))
    if a[0] == '--replay': return replay(a[1])
    if a[0] == 'selftest':
        import selftest
        return selftest.main(a[1] if len(a) > 1 else 'quick', base_seed)
    pid = a[0]; tier = a[1] if len(a) > 1 else os.environ.get('VERIF_TIER', 'quick')
    if pid not in PROPS: print('no check for', pid); return 2
    return check_property(pid, tier, base_seed, extra_overrides=a[2:])

if __name__ == '__main__':
    sys.exit(main())
