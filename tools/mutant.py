#!/usr/bin/env python3
"""Run checks against a seeded change without touching /repo: a scratch copy of /repo (HEAD + working tree) gets the
patch applied and the checks run with VERIF_REPO pointing at it.   mutant.py <patch.diff> <PID> [<PID>...] [--tier quick] [--seed N]"""
import os, subprocess, sys, tempfile, shutil, json
VERIF = os.path.dirname(os.path.dirname(os.path.abspath(__file__)))
def main():
    a = sys.argv[1:]; patch = os.path.abspath(a[0]); pids = [x for x in a[1:] if not x.startswith('--')]
    tier = 'quick'; seed = '1'
    for i, x in enumerate(a):
        if x == '--tier': tier = a[i + 1]
        if x == '--seed': seed = a[i + 1]
    pids = [p for p in pids if p not in (tier, seed)]
    scratch = tempfile.mkdtemp(prefix='verif-mut-', dir='/var/tmp')
    try:
        subprocess.run(['rsync', '-a', '--exclude', '_build', '--exclude', '.git', '/repo/', scratch + '/repo/'], check=True)
        r = subprocess.run(['patch', '-p1', '-d', scratch + '/repo', '-i', patch], stdout=subprocess.PIPE, stderr=subprocess.STDOUT, text=True)
        if r.returncode != 0: print('PATCH FAILED', r.stdout); return 2
        env = dict(os.environ, VERIF_REPO=scratch + '/repo', VERIF_SCRATCH=scratch + '/replays', VERIF_SEED=seed, VERIF_KEEP_BUILDS='8')
        res = {}
        for pid in pids:
            r = subprocess.run([os.path.join(VERIF, 'check'), pid, tier], stdout=subprocess.PIPE, stderr=subprocess.STDOUT, text=True, env=env)
            v = [l for l in r.stdout.split('\n') if l.startswith('VIOLATION') or l.startswith('  class=') or l.startswith('MACHINERY') or 'BUILD FAILED' in l]
            summ = [l for l in r.stdout.split('\n') if (' %s:' % tier) in l]
            res[pid] = {'exit': r.returncode, 'violations': sum(1 for l in v if l.startswith('VIOLATION')), 'lines': v[:8], 'summary': summ[-1] if summ else r.stdout[-300:]}
            print(pid, 'exit', r.returncode, res[pid]['violations'], 'violation classes;', res[pid]['summary'])
            for l in v[:6]: print('    ', l[:260])
        return 0
    finally:
        shutil.rmtree(scratch, ignore_errors=True)
if __name__ == '__main__': sys.exit(main())
