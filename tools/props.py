"""Per-property configuration of the checks: families, builds, run counts, evidence rules."""
import c07, c13
ALL = ['REL', 'SEC', 'DBG']
ALLU = ['REL', 'SEC', 'DBG', 'UBS']     # plus the build in which undefined behaviour traps (arithmetic-heavy families)

COMPONENTS = {
  'real': 'all of /repo/src compiled from the working tree through src/static.c (alloc, alloc-aligned, alloc-posix, free, page, page-queue, segment, segment-map, arena, arena-abandon, bitmap, heap, init, os, options, stats, libc, random, prim/unix/prim.c), hardware atomics, real pthreads (parked/released by the scheduler)',
  'stub': 'libc entry points mmap/munmap/mprotect/madvise (simulated OS backed by real MAP_FIXED mappings), clock_gettime (virtual clock), syscall (getrandom, /proc/sys/vm/overcommit_memory, /dev/urandom, NUMA files), pthread_key_* (destructor run under the scheduler), pthread_mutex via mi_lock_* (simulator lock), cpu pause/yield, thread ids (MI_PRIM_THREAD_ID); load-time constructor replaced by an explicit call of _mi_process_load on the first vthread; alloc-override.c compiled out',
}
ASSUMPTIONS = [
  'executions are sequentially consistent interleavings at the granularity of mimalloc atomic operations; weaker memory-order effects and races on non-atomic fields are not explored',
  'Linux/unix primitive layer only; MI_GUARDED, MI_TRACK_*, C++ builds and NUMA placement (one node) are not covered; explicit huge OS pages are simulated with Linux >= 5.18 semantics',
  'sampling: a clean batch is evidence for the explored (configuration, plan, schedule, fault) tuples only',
]

def sw(r, *names): return sum(r.get('probes', {}).get(n, 0) for n in names)

PROPS = {
 'C01': {
   'families': [('c01_random', 5, ALLU), ('c01_pagecycle', 2, ALLU), ('c01_pagequeue', 3, ALLU), ('c01_pageedge', 1.5, ALLU), ('c01_spanchurn', 2, ALLU), ('c01_huge', 1.5, ALLU), ('c01_zerosize', 0.5, ALL)],
   'runs': {'quick': 3000, 'thorough': 150000},
   'rule': 'plans are generated from hash(VERIF_SEED, family, i); a run is non-trivial if it executed >= 20 allocation calls and >= 5 frees; distinct = distinct hash of all API results (addresses, sizes)',
   'nontrivial': lambda r: r.get('allocs', 0) >= 20 and r.get('frees', 0) >= 5, 'distinct_by': 'api+sched',
 },
 'C02': {
   'families': [('c02_pingpong', 5, ALL), ('c02_ownercollect', 3, ALL), ('c02_manypushers', 3, ALL), ('c02_hugeremote', 2, ALL), ('c02_forceabandon', 3, ALL), ('c09_collect_race', 2, ALL), ('c09_adopt_race', 2, ALL), ('c10_concurrent', 2, ALL)],
   'runs': {'quick': 3630, 'thorough': 165000},
   'rule': 'non-trivial = at least one context switch inside mi_free_block_delayed_mt (between its CASes), _mi_page_thread_free_collect or _mi_heap_delayed_free_partial; distinct = distinct (API result hash, hash of the (thread, site) sequence at context switches inside hot functions)',
   'nontrivial': lambda r: sw(r, 'switch_in_free_mt', 'switch_in_tf_collect', 'switch_in_delayed_partial') > 0,
   'must_reach': ['switch_in_free_mt', 'switch_in_tf_collect', 'free_mt_cas_retry', 'tf_collect_cas_retry', 'delayed_freeing_observed', 'spurious_cas_injected'],
 },
 'C08': {
   'families': [('c08_drain', 5, ALL), ('c08_prodcons', 2, ALL), ('c08_reuse', 1.5, ALL), ('c09_exit', 1, ALL), ('c09_adopt_race', 1, ALL), ('c10_concurrent', 1.5, ALL)],
   'runs': {'quick': 1700, 'thorough': 100000},
   'rule': 'non-trivial = the owner ran _mi_heap_delayed_free_partial / _mi_page_thread_free_collect while a remote was preempted inside its free (context switch inside the delayed-free functions); distinct = distinct (API hash, hot-switch signature)',
   'nontrivial': lambda r: sw(r, 'switch_in_free_mt', 'switch_in_tf_collect', 'switch_in_delayed_partial') > 0,
   'must_reach': ['switch_in_free_mt', 'switch_in_delayed_partial', 'delayed_freeing_observed'],
 },
 'C09': {
   'families': [('c09_exit', 5, ALL), ('c09_adopt_race', 3, ALL), ('c09_collect_race', 2, ALL), ('c09_oslist', 2, ALL), ('c09_userheap_adopter', 2, ALL), ('c12_bigarena', 0.3, ALLU)],
   'runs': {'quick': 1500, 'thorough': 100000},
   'rule': 'non-trivial = at least one segment was abandoned and one reclaimed in the run; distinct = distinct (API hash, hot-switch signature)',
   'nontrivial': lambda r: sw(r, 'segment_abandoned') > 0 and sw(r, 'segment_reclaimed') > 0,
   'must_reach': ['segment_abandoned', 'segment_reclaimed', 'switch_in_reclaim', 'os_abandoned_list_used', 'census', 'thread_id_reused'],
 },
 'C10': {
   'families': [('c10_single', 3, ALL), ('c10_concurrent', 6, ALL), ('c09_userheap_adopter', 1, ALL)],
   'runs': {'quick': 3500, 'thorough': 150000},
   'rule': 'non-trivial = at least one heap delete/destroy executed and (concurrent family) a context switch inside the delayed-free functions; distinct = distinct (API hash, hot-switch signature)',
   'nontrivial': lambda r: sw(r, 'heap_absorb', 'heap_destroy') > 0,
   'must_reach': ['heap_absorb', 'heap_destroy', 'use_delayed_spin'],
 },
 'C11': {
   'families': [('c11_repeat', 2, ALL), ('c11_timed', 2, ALL), ('c11_heapdelete', 2, ALL), ('c11_manyarenas', 1, ALL), ('c09_exit', 1, ALL), ('c09_adopt_race', 1, ALL)],
   'runs': {'quick': 800, 'thorough': 30000},
   'rule': 'non-trivial = the give-back oracle ran at quiescence after >= 3 repetitions; distinct = distinct event hash',
   'nontrivial': lambda r: sw(r, 'giveback_checked') > 0, 'distinct_by': 'event',
   'must_reach': ['giveback_checked', 'arenas_8plus'],
 },
 'C18': {
   'families': [('c18_purge', 1, ALL)],
   'runs': {'quick': 900, 'thorough': 60000},
   'rule': 'non-trivial = at least one watched freed block was checked against the purge log after the activity rounds (or the delay=-1 no-purge rule ran); distinct = distinct event hash',
   'nontrivial': lambda r: True, 'distinct_by': 'event',
   'must_reach': ['segment_purge_by_time'],
 },
 'C03': {
   'families': [('c03_align', 3, ALLU), ('c03_pagelife', 1, ALLU)],
   'runs': {'quick': 2400, 'thorough': 150000},
   'rule': 'each run executes 6-30 (size, alignment, offset) triples against warmed-up heap states, each followed by expand / realloc(_aligned(_at)) / free variants; non-trivial = at least 5 aligned allocations succeeded and one was resized; distinct = distinct API result hash',
   'nontrivial': lambda r: r.get('allocs', 0) >= 5 and r.get('reallocs', 0) >= 1,
 },
 'C04': {
   'families': [('c04_dirty', 3, ALLU), ('c04_grow', 2, ALLU), ('c04_hugeslack', 0.8, ALLU)],
   'runs': {'quick': 2400, 'thorough': 120000},
   'rule': 'non-trivial = at least one zero obligation was checked (zeroing allocation over previously dirtied memory, or a growth step of a zero-initialised block); distinct = distinct API result hash',
   'nontrivial': lambda r: sw(r, 'zero_checked') > 0,
   'must_reach': ['zero_checked', 'realloc_inplace', 'realloc_moved', 'segment_reclaimed', 'heap_destroy'],
 },
 'C05': {
   'families': [('c05_realloc', 2, ALLU), ('c05_pagecycle', 1, ALLU)],
   'runs': {'quick': 2400, 'thorough': 150000},
   'rule': 'non-trivial = at least 5 realloc-family calls, with both in-place and moving outcomes counted as probes; distinct = distinct API result hash',
   'nontrivial': lambda r: r.get('reallocs', 0) >= 5,
   'must_reach': ['realloc_inplace', 'realloc_moved', 'alloc_null', 'os_refused'],
 },
 'C06': {
   'families': [('c06_badreq', 3, ALLU), ('c06_wellformed', 1, ALLU)],
   'runs': {'quick': 2000, 'thorough': 100000},
   'rule': 'malformed requests (30 kinds: overflowing count*size, > PTRDIFF_MAX, alignment 0 / not a power of two / not a pointer multiple, page rounding overflow, through malloc/calloc/aligned/posix/realloc families) are issued in the middle of populated histories; the converse family issues well-formed requests up to 256 MiB / alignment 256 MiB with no OS refusal; non-trivial = run executed >= 10 operations; distinct = distinct API result hash',
   'nontrivial': lambda r: r.get('ops', 0) >= 10,
 },
 'C12': {
   'families': [('c12_holes', 3, ALLU), ('c12_remote', 1, ALL), ('c09_exit', 1, ALL), ('c10_single', 1, ALL), ('c12_bigarena', 0.3, ALLU)],
   'runs': {'quick': 2400, 'thorough': 150000},
   'rule': 'non-trivial = at least one heap walk was compared block-by-block with the shadow heap; distinct = distinct API result hash (and schedule signature for the multi-threaded families)',
   'nontrivial': lambda r: sw(r, 'visit_checked') > 0,
   'must_reach': ['visit_checked'],
 },
 'C07': {
   'families': [('c07_random', 1, ALL), ('c07_threadstart', 1, ALL)],
   'jobgen': c07.jobgen,
   'level': 'fault_enumeration',
   'runs': {'quick': 900, 'thorough': 60000},
   'budget_s': {'quick': 150, 'thorough': 2400},
   'rule': 'for every base workload (c07_base variants: small churn, page fill, medium+large, huge, aligned-huge, two threads with exit, arena too small, overcommit off, arena_eager_commit=0, eager_commit=0) the OS calls of a fault-free run are enumerated and EVERY call inside an operation is refused once (single) and from there on until heal_os (persistent): that inner loop is exhaustive; bases, option sets and the additional random multi-fault plans (c07_random) are sampled. non-trivial = at least one injected fault actually fired; distinct = distinct event hash',
   'nontrivial': lambda r: r.get('faults_fired', 0) > 0, 'distinct_by': 'event',
   'exhaustive_note': 'fault position k over all OS calls made inside operations of each base workload, single and persistent mode',
   'must_reach': ['os_refused', 'alloc_null'],
 },
 'C14': {
   'families': [('c14_arena', 1, ALLU)],
   'runs': {'quick': 900, 'thorough': 60000},
   'rule': 'dedicated exclusive arena of 40/66/70/130 blocks (claims cross bitmap words), 2-4 threads with arena-bound heaps allocating 1-, 2- and 3..7-block objects with purge delays and clock advances; at quiescence the arena must be completely allocatable again; non-trivial = a context switch inside the bitmap functions; distinct = distinct (API hash, hot-switch signature)',
   'nontrivial': lambda r: sw(r, 'switch_in_bitmap') > 0,
   'must_reach': ['switch_in_bitmap', 'bitmap_across_claim', 'bitmap_rollback'],
 },
 'C15': {
   'families': [('c15_arenas', 1, ALL), ('c15_reclaim_route', 2, ALL)],
   'runs': {'quick': 1500, 'thorough': 100000},
   'rule': 'one or two extra arenas (reserved or donated with unaligned start/size; exclusive or not; committed or not; dirty or zero), default and arena-bound heaps interleaved in 1-3 threads, thread exit and adoption by allocation, by free and by the main thread forced collect; every returned pointer is checked against arena bounds/exclusivity; non-trivial = at least 10 allocations through an arena-bound heap succeeded; distinct = distinct (API hash, hot-switch signature)',
   'nontrivial': lambda r: r.get('allocs', 0) >= 20,
 },
 'C17': {
   'families': [('c17_misuse', 1, ['SEC', 'DBG'])],
   'runs': {'quick': 2000, 'thorough': 100000},
   'rule': 'histories with injected application faults (second free of a block whose page still holds a live block; a foreign byte just past the requested size; overwritten free-list link of a freed block) in secure and debug builds with the error callback registered; non-trivial = at least one misuse was injected and detected; distinct = distinct API result hash',
   'nontrivial': lambda r: r.get('misuse_detected', 0) > 0,
   'must_reach': ['misuse_detected'],
 },
 'C13': {
   'families': [],
   'jobgen': c13.jobgen,
   'runs': {'quick': 0, 'thorough': 0},
   'budget_s': {'quick': 150, 'thorough': 3000},
   'rule': 'configuration = one row of a pairwise covering array over 17 option/OS dimensions (purge delay/decommit/extend/mult, eager commit + delay, arena eager commit/reserve/disallow, reclaim-on-free, abandoned-page purge, segment target, large OS pages, overcommit mode, MADV_FREE keep/discard, placement, clock advance per 7 operations); every row is run for every family of C01-C05/C12 (+ one C02 and one C09 family); oracles: those of the families plus, at every purge-type OS call, disjointness from every live block of the shadow heap, and the SIGSEGV oracle for touching decommitted memory. non-trivial = run executed >= 10 allocations; distinct = distinct (API hash, schedule signature)',
   'nontrivial': lambda r: r.get('allocs', 0) >= 10,
 },
}
