"""Per-property configuration of the checks: families, builds, run counts, evidence rules."""
ALL = ['REL', 'SEC', 'DBG']

COMPONENTS = {
  'real': 'all of /repo/src compiled from the working tree through src/static.c (alloc, alloc-aligned, alloc-posix, free, page, page-queue, segment, segment-map, arena, arena-abandon, bitmap, heap, init, os, options, stats, libc, random, prim/unix/prim.c), hardware atomics, real pthreads (parked/released by the scheduler)',
  'stub': 'libc entry points mmap/munmap/mprotect/madvise (simulated OS backed by real MAP_FIXED mappings), clock_gettime (virtual clock), syscall (getrandom, /proc/sys/vm/overcommit_memory, /dev/urandom, NUMA files), pthread_key_* (destructor run under the scheduler), pthread_mutex via mi_lock_* (simulator lock), cpu pause/yield, thread ids (MI_PRIM_THREAD_ID); load-time constructor replaced by an explicit call of _mi_process_load on the first vthread; alloc-override.c compiled out',
}
ASSUMPTIONS = [
  'executions are sequentially consistent interleavings at the granularity of mimalloc atomic operations; weaker memory-order effects and races on non-atomic fields are not explored',
  'Linux/unix primitive layer only; MI_GUARDED, MI_TRACK_*, C++ builds and large/huge OS pages are not covered',
  'sampling: a clean batch is evidence for the explored (configuration, plan, schedule, fault) tuples only',
]

def sw(r, *names): return sum(r.get('probes', {}).get(n, 0) for n in names)

PROPS = {
 'C01': {
   'families': [('c01_random', 5, ALL), ('c01_pagecycle', 2, ALL), ('c01_spanchurn', 2, ALL), ('c01_huge', 1.5, ALL), ('c01_zerosize', 0.5, ALL)],
   'runs': {'quick': 3000, 'thorough': 150000},
   'rule': 'plans are generated from hash(VERIF_SEED, family, i); a run is non-trivial if it executed >= 20 allocation calls and >= 5 frees; distinct = distinct hash of all API results (addresses, sizes)',
   'nontrivial': lambda r: r.get('allocs', 0) >= 20 and r.get('frees', 0) >= 5, 'distinct_by': 'api+sched',
 },
 'C02': {
   'families': [('c02_pingpong', 5, ALL), ('c02_ownercollect', 3, ALL), ('c02_manypushers', 3, ALL), ('c02_hugeremote', 1, ALL)],
   'runs': {'quick': 3000, 'thorough': 150000},
   'rule': 'non-trivial = at least one context switch inside mi_free_block_delayed_mt (between its CASes), _mi_page_thread_free_collect or _mi_heap_delayed_free_partial; distinct = distinct (API result hash, hash of the (thread, site) sequence at context switches inside hot functions)',
   'nontrivial': lambda r: sw(r, 'switch_in_free_mt', 'switch_in_tf_collect', 'switch_in_delayed_partial') > 0,
   'must_reach': ['switch_in_free_mt', 'switch_in_tf_collect', 'free_mt_cas_retry', 'tf_collect_cas_retry', 'delayed_freeing_observed', 'spurious_cas_injected'],
 },
}
