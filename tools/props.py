"""Per-property configuration of the checks: families, builds, run counts, evidence rules."""
ALL = ['REL', 'SEC', 'DBG']

COMPONENTS = {
  'real': 'all of /repo/src compiled from the working tree through src/static.c (alloc, alloc-aligned, alloc-posix, free, page, page-queue, segment, segment-map, arena, arena-abandon, bitmap, heap, init, os, options, stats, libc, random, prim/unix/prim.c), hardware atomics, real pthreads (parked/released by the scheduler)',
  'stub': 'libc entry points mmap/munmap/mprotect/madvise (simulated OS backed by real MAP_FIXED mappings), clock_gettime (virtual clock), syscall (getrandom, /proc/sys/vm/overcommit_memory, /dev/urandom, NUMA files), pthread_key_* (destructor run under the scheduler), pthread_mutex via mi_lock_* (simulator lock), cpu pause/yield, thread ids (MI_PRIM_THREAD_ID); load-time constructor replaced by an explicit call of _mi_process_load on the first vthread; alloc-override.c compiled out',
}
ASSUMPTIONS = [
  'executions are sequentially consistent interleavings at the granularity of mimalloc atomic operations; weaker memory-order effects and races on non-atomic fields are not explored',
  'Linux/unix primitive layer only; MI_GUARDED, MI_TRACK_*, C++ builds and large/huge OS pages are not covered',
  'sampling: a clean batch is evidence for the explored (configuration, plan, schedule, fault) tuples only',
]

def sw(r, *names): return sum(r.get('probes', {}).get(n, 0) for n in names)

PROPS = {
 'C01': {
   'families': [('c01_random', 5, ALL), ('c01_pagecycle', 2, ALL), ('c01_spanchurn', 2, ALL), ('c01_huge', 1.5, ALL), ('c01_zerosize', 0.5, ALL)],
   'runs': {'quick': 3000, 'thorough': 150000},
   'rule': 'plans are generated from hash(VERIF_SEED, family, i); a run is non-trivial if it executed >= 20 allocation calls and >= 5 frees; distinct = distinct hash of all API results (addresses, sizes)',
   'nontrivial': lambda r: r.get('allocs', 0) >= 20 and r.get('frees', 0) >= 5, 'distinct_by': 'api+sched',
 },
 'C02': {
   'families': [('c02_pingpong', 5, ALL), ('c02_ownercollect', 3, ALL), ('c02_manypushers', 3, ALL), ('c02_hugeremote', 1, ALL)],
   'runs': {'quick': 3000, 'thorough': 150000},
   'rule': 'non-trivial = at least one context switch inside mi_free_block_delayed_mt (between its CASes), _mi_page_thread_free_collect or _mi_heap_delayed_free_partial; distinct = distinct (API result hash, hash of the (thread, site) sequence at context switches inside hot functions)',
   'nontrivial': lambda r: sw(r, 'switch_in_free_mt', 'switch_in_tf_collect', 'switch_in_delayed_partial') > 0,
   'must_reach': ['switch_in_free_mt', 'switch_in_tf_collect', 'free_mt_cas_retry', 'tf_collect_cas_retry', 'delayed_freeing_observed', 'spurious_cas_injected'],
 },
 'C08': {
   'families': [('c08_drain', 6, ALL), ('c08_prodcons', 1, ALL)],
   'runs': {'quick': 1500, 'thorough': 100000},
   'rule': 'non-trivial = the owner ran _mi_heap_delayed_free_partial / _mi_page_thread_free_collect while a remote was preempted inside its free (context switch inside the delayed-free functions); distinct = distinct (API hash, hot-switch signature)',
   'nontrivial': lambda r: sw(r, 'switch_in_free_mt', 'switch_in_tf_collect', 'switch_in_delayed_partial') > 0,
   'must_reach': ['switch_in_free_mt', 'switch_in_delayed_partial', 'delayed_freeing_observed'],
 },
 'C09': {
   'families': [('c09_exit', 5, ALL), ('c09_userheap_adopter', 2, ALL)],
   'runs': {'quick': 1500, 'thorough': 100000},
   'rule': 'non-trivial = at least one segment was abandoned and one reclaimed in the run; distinct = distinct (API hash, hot-switch signature)',
   'nontrivial': lambda r: sw(r, 'segment_abandoned') > 0 and sw(r, 'segment_reclaimed') > 0,
   'must_reach': ['segment_abandoned', 'segment_reclaimed', 'switch_in_reclaim', 'os_abandoned_list_used', 'census', 'thread_id_reused'],
 },
 'C10': {
   'families': [('c10_single', 4, ALL), ('c10_concurrent', 4, ALL), ('c09_userheap_adopter', 1, ALL)],
   'runs': {'quick': 2500, 'thorough': 120000},
   'rule': 'non-trivial = at least one heap delete/destroy executed and (concurrent family) a context switch inside the delayed-free functions; distinct = distinct (API hash, hot-switch signature)',
   'nontrivial': lambda r: sw(r, 'heap_absorb', 'heap_destroy') > 0,
   'must_reach': ['heap_absorb', 'heap_destroy', 'use_delayed_spin'],
 },
 'C11': {
   'families': [('c11_repeat', 1, ALL)],
   'runs': {'quick': 240, 'thorough': 10000},
   'rule': 'non-trivial = the give-back oracle ran at quiescence after >= 3 repetitions; distinct = distinct event hash',
   'nontrivial': lambda r: sw(r, 'giveback_checked') > 0, 'distinct_by': 'event',
   'must_reach': ['giveback_checked'],
 },
 'C18': {
   'families': [('c18_purge', 1, ALL)],
   'runs': {'quick': 900, 'thorough': 60000},
   'rule': 'non-trivial = at least one watched freed block was checked against the purge log after the activity rounds (or the delay=-1 no-purge rule ran); distinct = distinct event hash',
   'nontrivial': lambda r: True, 'distinct_by': 'event',
   'must_reach': ['segment_purge_by_time'],
 },
}
