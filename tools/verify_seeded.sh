#!/bin/sh
# verify_seeded.sh <worktree> : confirm a seeded change (1) builds and passes ctest with the change, (2) demo fails with it, (3) demo passes without it
WT=$1; cd $WT || exit 2
echo "--- with change: build + ctest"
cmake --build _build > /tmp/vs_build.log 2>&1 || { echo BUILD-FAILED; tail -5 /tmp/vs_build.log; exit 1; }
ctest --test-dir _build -j8 --timeout 900 2>&1 | grep -E 'tests passed|Failed|\*\*\*' 
echo "--- with change: demo"
sh _mutant/demo.sh > /tmp/vs_demo1.log 2>&1; echo "demo exit=$? : $(tail -2 /tmp/vs_demo1.log | tr '\n' ' ' | cut -c1-200)"
git apply -R _mutant/patch.diff || { echo REVERT-FAILED; exit 1; }
cmake --build _build > /tmp/vs_build.log 2>&1
echo "--- without change: demo"
sh _mutant/demo.sh > /tmp/vs_demo2.log 2>&1; echo "demo exit=$? : $(tail -2 /tmp/vs_demo2.log | tr '\n' ' ' | cut -c1-200)"
git apply _mutant/patch.diff; cmake --build _build > /tmp/vs_build.log 2>&1
