"""C13: option grid. A pairwise covering array over the documented options that change commit / purge / arena
behaviour (plus the simulated OS's overcommit mode, MADV_FREE semantics and placement policy) is crossed with the
families of C01-C05 and C12 (and one concurrent family) with the virtual clock advancing between operations."""
import itertools, random

DIMS = [
 ('env:MIMALLOC_PURGE_DELAY', ['0', '1', '10']),
 ('env:MIMALLOC_PURGE_DECOMMITS', ['0', '1']),
 ('env:MIMALLOC_PURGE_EXTEND_DELAY', ['0', '1', '5']),
 ('env:MIMALLOC_ARENA_PURGE_MULT', ['1', '10']),
 ('env:MIMALLOC_EAGER_COMMIT', ['0', '1']),
 ('env:MIMALLOC_EAGER_COMMIT_DELAY', ['0', '1', '4']),
 ('env:MIMALLOC_ARENA_EAGER_COMMIT', ['0', '1', '2']),
 ('env:MIMALLOC_ARENA_RESERVE', ['64MiB', '1GiB']),
 ('env:MIMALLOC_ABANDONED_RECLAIM_ON_FREE', ['0', '1']),
 ('env:MIMALLOC_ABANDONED_PAGE_PURGE', ['0', '1']),
 ('env:MIMALLOC_TARGET_SEGMENTS_PER_THREAD', ['0', '3']),
 ('env:MIMALLOC_ALLOW_LARGE_OS_PAGES', ['0', '1', '2']),
 ('hugetlb', ['0', '2']),
 ('env:MIMALLOC_RESERVE_OS_MEMORY', ['0', '131072']),
 ('overcommit', ['0', '2']),
 ('madv_free_mode', ['0', '1']),
 ('place_policy', ['0', '2']),
 ('auto_advance_ms', ['0', '3', '11']),
]
FAMILIES = ['c01_random', 'c01_pagecycle', 'c01_spanchurn', 'c01_huge', 'c03_align', 'c04_dirty', 'c04_grow', 'c05_realloc', 'c12_holes', 'c12_remote', 'c02_pingpong', 'c09_exit', 'c14_arena', 'c02_hugeremote', 'c15_arenas', 'c09_collect_race']

CONCURRENT = ('c12_remote', 'c02_pingpong', 'c09_exit', 'c14_arena', 'c02_hugeremote', 'c15_arenas', 'c09_collect_race')

def pairwise_rows(seed=12345):
    """greedy pairwise covering array (deterministic)"""
    rnd = random.Random(seed)
    n = len(DIMS)
    uncovered = set()
    for i, j in itertools.combinations(range(n), 2):
        for a in range(len(DIMS[i][1])):
            for b in range(len(DIMS[j][1])): uncovered.add((i, a, j, b))
    rows = []
    while uncovered:
        best = None; best_cov = -1
        for _ in range(60):
            row = [rnd.randrange(len(DIMS[i][1])) for i in range(n)]
            # seed the candidate with one uncovered pair
            (i, a, j, b) = rnd.choice(tuple(uncovered)) if len(uncovered) < 4000 else next(iter(uncovered))
            row[i] = a; row[j] = b
            cov = sum(1 for (i2, j2) in itertools.combinations(range(n), 2) if (i2, row[i2], j2, row[j2]) in uncovered)
            if cov > best_cov: best, best_cov = row, cov
        rows.append(best)
        for (i2, j2) in itertools.combinations(range(n), 2): uncovered.discard((i2, best[i2], j2, best[j2]))
    return rows

# An option that switches a whole mechanism off masks every other arena option in its row; it is kept out of the
# covering array and set in every fourth row instead, so that most rows exercise arenas and purging (three of eight rows have one mechanism switched off).
MASKING = [('env:MIMALLOC_DISALLOW_ARENA_ALLOC', lambda ri: '1' if ri % 8 == 3 else '0'),     # no arenas at all
           ('env:MIMALLOC_ARENA_RESERVE', lambda ri: '0' if ri % 8 == 7 else None),             # no arenas reserved on demand
           ('env:MIMALLOC_PURGE_DELAY', lambda ri: '-1' if ri % 8 == 5 else None)]              # no purging

def row_args(row, ri=0):
    a = ['auto_advance_every=7']
    for (name, vals), k in zip(DIMS, row): a.append('%s=%s' % (name, vals[k]))
    for name, f in MASKING:        # later arguments override earlier ones
        v = f(ri)
        if v is not None: a.append('%s=%s' % (name, v))
    return a

def jobgen(ctx):
    rows = pairwise_rows()
    tier = ctx['tier']; cov = ctx['cov']
    cov['pairwise_rows'] = len(rows); cov['option_dimensions'] = len(DIMS) + len(MASKING)
    builds = ['REL', 'SEC', 'DBG']
    n_total = 4200 if tier == 'quick' else 200000
    # concurrent families get twice the seeds of the sequential ones: their outcome also depends on the schedule
    weight = {f: (2 if f in CONCURRENT else 1) for f in FAMILIES}
    unit = max(1, n_total // (len(rows) * sum(weight.values())))
    cov['rows_enumerated_completely'] = True
    cov['exhaustive_dimension'] = 'all %d rows of the pairwise covering array are run for every family' % len(rows)
    k = 0
    for ri, row in enumerate(rows):
        ra = row_args(row, ri)
        for fam in FAMILIES:
            for rep in range(unit * weight[fam]):
                b = builds[k % 3]; k += 1
                sd = ctx['seed_of'](ctx['seed'], 'c13/' + fam, ri * 1000 + rep)
                yield (b, ['--family', fam, '--seed', str(sd)] + ra, fam, sd)
    # beyond pairs: rows with every dimension drawn at random (a different set for every VERIF_SEED), one run per row and family
    # (twice for the concurrent families); interactions of three and more options are sampled this way, not covered
    n_rand = 30 if tier == 'quick' else 1500
    rnd = random.Random(ctx['seed'] * 7919 + 13)
    cov['random_rows'] = n_rand
    for rj in range(n_rand):
        row = [rnd.randrange(len(vals)) for (_, vals) in DIMS]
        ra = row_args(row, rnd.randrange(8))
        for fam in FAMILIES:
            for rep in range(weight[fam]):
                b = builds[k % 3]; k += 1
                sd = ctx['seed_of'](ctx['seed'], 'c13r/' + fam, rj * 10 + rep)
                yield (b, ['--family', fam, '--seed', str(sd)] + ra, fam, sd)
