"""Determinism self-test of the machinery (DESIGN.md section 8): every family is run for N seeds twice, once with 16
and once with 3 worker slots, and all hashes (events, API results, schedule signature) and counters must agree."""
import json, os, sys, time
import simbuild
from vcheck import run_jobs, seed_of, VERIF

def main(tier, base_seed):
    bdir = simbuild.ensure()
    fams = [l.strip() for l in os.popen(os.path.join(bdir, 'simrun-REL') + ' --list').read().split() if l.strip()]
    n = 40 if tier == 'quick' else 400
    jobs = []; meta = []
    for fi, fam in enumerate(fams):
        for i in range(n):
            b = ['REL', 'SEC', 'DBG'][(i + fi) % 3]
            sd = seed_of(base_seed, 'selftest/' + fam, i)
            jobs.append((b, ['--family', fam, '--seed', sd])); meta.append((fam, b, sd))
    t0 = time.time()
    r1 = run_jobs(bdir, jobs, workers=16)
    r2 = run_jobs(bdir, jobs, workers=3)
    keys = ('status', 'oracle', 'event_hash', 'api_hash', 'sched_sig', 'steps', 'switches', 'ops', 'allocs', 'frees', 'faults_fired', 'sim_ms')
    bad = 0
    for (c1, a), (c2, b), m in zip(r1, r2, meta):
        if a.get('status') == 'infra' or b.get('status') == 'infra': print('INFRA', m, a.get('msg'), b.get('msg')); bad += 1; continue
        d = [k for k in keys if a.get(k) != b.get(k)]
        if d: bad += 1; print('NONDETERMINISTIC family=%s build=%s seed=%d differs in %s' % (m[0], m[1], m[2], d))
    ev = {'runs': len(jobs) * 2, 'families': len(fams), 'seeds_per_family': n, 'mismatches': bad, 'wall_s': round(time.time() - t0, 1)}
    os.makedirs(os.path.join(VERIF, 'evidence'), exist_ok=True)
    json.dump(ev, open(os.path.join(VERIF, 'evidence', 'selftest.json'), 'w'), indent=1)
    print('selftest: %d runs x2 (16 and 3 workers), %d families, %d mismatches, %.1fs' % (len(jobs), len(fams), bad, time.time() - t0))
    return 0 if bad == 0 else 2
