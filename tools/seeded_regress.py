#!/usr/bin/env python3
"""seeded_regress.py [name-substring ...]  --  run every seeded change (seeded/*/patch.diff: against the property it is filed
under, plus the extra checks named in EXTRA) and every sensitivity patch with the current machinery (quick tier, scratch copy of
/repo per patch) and write evidence/seeded.json: caught or missed, violating runs, classes. Exit 1 if one is missed."""
import os, sys, json, subprocess, glob, time, re
VERIF = os.path.dirname(os.path.dirname(os.path.abspath(__file__)))
EXTRA = {'C02-agent6': ['C10'], 'C05-agent7': ['C06'], 'C05-agent5': ['C04'], 'C08-agent6': ['C10'], 'C08-agent4': ['C09'], 'C02-agent2': ['C09'], 'C13-agent2': ['C14'], 'C02-agent4': ['C09']}
def run(patch, pids):
    r = subprocess.run([sys.executable, os.path.join(VERIF, 'tools', 'mutant.py'), patch] + pids, stdout=subprocess.PIPE, stderr=subprocess.STDOUT, text=True)
    res = {}
    for line in r.stdout.split('\n'):
        m = re.match(r'^(C\d\d) exit (\d+) (\d+) violation classes; .*\((\d+) ok, (\d+) violating', line)
        if m: res[m.group(1)] = {'exit': int(m.group(2)), 'violating_runs': int(m.group(5))}
    classes = sorted(set(l.strip().split()[0] for l in r.stdout.split('\n') if l.strip().startswith('class=')))
    return res, classes, r.stdout[-400:]
def main():
    sel = sys.argv[1:]
    jobs = []
    for d in sorted(glob.glob(os.path.join(VERIF, 'seeded', '*'))):
        n = os.path.basename(d); pid = n.split('-')[0]
        mp = os.path.join(d, 'meta.json')
        if os.path.exists(mp) and json.load(open(mp)).get('not_a_violation'): continue     # kept for the record only
        jobs.append((n, os.path.join(d, 'patch.diff'), [pid] + EXTRA.get(n, [])))
    for f in sorted(glob.glob(os.path.join(VERIF, 'sensitivity', '*.diff'))):
        n = os.path.basename(f)[:-5]; props = open(f[:-5] + '.props').read().split()
        jobs.append((n, f, props))
    if sel: jobs = [j for j in jobs if any(s in j[0] for s in sel)]
    p = os.path.join(VERIF, 'evidence', 'seeded.json')
    out = json.load(open(p)) if os.path.exists(p) and sel else {}
    for n, patch, pids in jobs:
        t0 = time.time(); res, classes, tail = run(patch, pids)
        caught = any(v['exit'] == 1 for v in res.values())
        out[n] = {'checks': res, 'caught': caught, 'classes': classes, 'wall_s': round(time.time() - t0, 1)}
        print(n, 'CAUGHT' if caught else 'MISSED', res, classes[:4], flush=True)
        if not res: print('   ', tail.replace('\n', ' | '), flush=True)
        json.dump(out, open(p, 'w'), indent=1)
    return 0 if all(v['caught'] for v in out.values()) else 1
if __name__ == '__main__': sys.exit(main())
