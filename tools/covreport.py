#!/usr/bin/env python3
"""covreport.py [runs_per_family]  --  which code of /repo/src did the simulated runs execute?
Builds the three variants of src/static.c with gcc --coverage in a scratch directory under /var/tmp, runs every family that
a claimed property uses (runs_per_family seeds per family and build, default 40), merges the counters with gcov and writes
/verif/evidence/coverage.json: per source file the line coverage, and the functions that no run ever entered.
This is evidence about reach (DESIGN.md section 10), not a check: it never fails."""
import os, sys, json, subprocess, tempfile, shutil, gzip, glob, concurrent.futures as cf
sys.path.insert(0, os.path.dirname(os.path.abspath(__file__)))
import simbuild, props
VERIF = simbuild.VERIF; REPO = simbuild.REPO; SIM = simbuild.SIM

def sh(cmd, **kw):
    r = subprocess.run(cmd, stdout=subprocess.PIPE, stderr=subprocess.STDOUT, text=True, **kw)
    if r.returncode != 0: sys.stderr.write('FAILED %s\n%s\n' % (' '.join(cmd), r.stdout[-2000:])); raise SystemExit(2)
    return r.stdout

def main():
    n = int(sys.argv[1]) if len(sys.argv) > 1 else 40
    out = tempfile.mkdtemp(prefix='verif-cov-', dir='/var/tmp')
    try:
        cxx = ['g++', '-std=c++17', '-O2', '-g1', '-fno-pie', '-I' + os.path.join(REPO, 'include'), '-I' + SIM, '-w']
        jobs = []
        for s in simbuild.SIM_SRCS_COMMON: jobs.append(cxx + ['-c', os.path.join(SIM, s), '-o', os.path.join(out, s.replace('.cc', '.o'))])
        for b, fl in simbuild.BUILDS.items():
            os.makedirs(os.path.join(out, b), exist_ok=True)
            jobs.append(['gcc', '-std=gnu11', '--coverage', '-fprofile-update=atomic', '-I' + os.path.join(REPO, 'include'), '-I' + os.path.join(REPO, 'src'), '-fno-pie', '-g1', '-w'] + simbuild.SEAMS + fl +
                        ['-c', os.path.join(REPO, 'src', 'static.c'), '-o', os.path.join(out, b, 'mi.o')])
            jobs.append(['gcc', '-std=gnu11', '-I' + os.path.join(REPO, 'include'), '-I' + os.path.join(REPO, 'src'), '-fno-pie', '-g1', '-w'] + simbuild.SEAMS + fl + ['-c', os.path.join(SIM, 'peek.c'), '-o', os.path.join(out, 'peek-%s.o' % b)])
            for s in simbuild.SIM_SRCS_PER_BUILD: jobs.append(cxx + ['-DSIM_BUILD="%s"' % b, '-c', os.path.join(SIM, s), '-o', os.path.join(out, s.replace('.cc', '-%s.o' % b))])
        with cf.ThreadPoolExecutor(16) as ex: list(ex.map(sh, jobs))
        for b in simbuild.BUILDS:
            objs = [os.path.join(out, s.replace('.cc', '.o')) for s in simbuild.SIM_SRCS_COMMON] + [os.path.join(out, s.replace('.cc', '-%s.o' % b)) for s in simbuild.SIM_SRCS_PER_BUILD] + [os.path.join(out, b, 'mi.o'), os.path.join(out, 'peek-%s.o' % b)]
            sh(['g++', '-no-pie', '--coverage', '-Wl,-u,__gcov_dump', '-o', os.path.join(out, 'simrun-' + b)] + objs + ['-lpthread'])
        fams = sorted({f[0] for p in props.PROPS.values() for f in p['families']})
        runs = [(b, f, 1000 + i) for b in simbuild.BUILDS for f in fams for i in range(n)]
        def one(x):
            b, f, sd = x
            try: subprocess.run([os.path.join(out, 'simrun-' + b), '--family', f, '--seed', str(sd)], stdout=subprocess.DEVNULL, stderr=subprocess.DEVNULL, timeout=120)
            except subprocess.TimeoutExpired: pass
        with cf.ThreadPoolExecutor(16) as ex: list(ex.map(one, runs))
        files = {}; funcs = {}
        for b in simbuild.BUILDS:
            d = os.path.join(out, b)
            sh(['gcov', '-j', '-o', d, os.path.join(d, 'mi.gcda')], cwd=d)
            for gz in glob.glob(os.path.join(d, '*.gcov.json.gz')):
                j = json.load(gzip.open(gz))
                for fobj in j['files']:
                    name = fobj['file']
                    if '/src/' not in name and not name.startswith('src/') and 'include/mimalloc' not in name: continue
                    short = name.split('/repo/')[-1] if '/repo/' in name else name
                    fl = files.setdefault(short, {})
                    for ln in fobj['lines']:
                        k = ln['line_number']; fl[k] = fl.get(k, 0) + ln['count']
                    for fn in fobj.get('functions', []):
                        key = (short, fn['name']); funcs[key] = funcs.get(key, 0) + fn['execution_count']
        rep = {'runs': len(runs), 'runs_per_family_and_build': n, 'families': fams, 'builds': list(simbuild.BUILDS),
               'measure': 'gcov line counters of src/static.c compiled with the same seams and flags as the checks, summed over the three builds',
               'files': {}, 'functions_never_entered': {}}
        for f, fl in sorted(files.items()):
            tot = len(fl); hit = sum(1 for c in fl.values() if c > 0)
            rep['files'][f] = {'lines': tot, 'lines_executed': hit, 'percent': round(100.0 * hit / tot, 1) if tot else 0}
        for (f, name), c in sorted(funcs.items()):
            if c == 0: rep['functions_never_entered'].setdefault(f, []).append(name)
        tl = sum(v['lines'] for k, v in rep['files'].items() if k.startswith('src/')); th = sum(v['lines_executed'] for k, v in rep['files'].items() if k.startswith('src/'))
        rep['src_total'] = {'lines': tl, 'lines_executed': th, 'percent': round(100.0 * th / tl, 1) if tl else 0}
        json.dump(rep, open(os.path.join(VERIF, 'evidence', 'coverage.json'), 'w'), indent=1)
        if os.environ.get('COV_LINES'):     # for the author: the lines never executed, per file (not part of the evidence)
            with open(os.environ['COV_LINES'], 'w') as fo:
                for f, fl in sorted(files.items()):
                    miss = sorted(k for k, c in fl.items() if c == 0)
                    if not f.startswith('src/') or not miss: continue
                    try: src = open(os.path.join(REPO, f)).read().split('\n')
                    except OSError: continue
                    fo.write('=== %s\n' % f)
                    for k in miss: fo.write('%5d: %s\n' % (k, src[k - 1] if k - 1 < len(src) else ''))
        print('src total: %d of %d lines (%.1f%%)' % (th, tl, rep['src_total']['percent']))
        for f, v in rep['files'].items():
            if f.startswith('src/'): print('  %-28s %5d/%5d %5.1f%%  never entered: %d functions' % (f, v['lines_executed'], v['lines'], v['percent'], len(rep['functions_never_entered'].get(f, []))))
    finally:
        shutil.rmtree(out, ignore_errors=True)
if __name__ == '__main__': main()
