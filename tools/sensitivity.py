#!/usr/bin/env python3
"""Sensitivity self-test: every hand-made breakage in /verif/sensitivity must be reported by (one of) its target checks
within the quick budget. Writes evidence/sensitivity.json. Usage: sensitivity.py [name-prefix ...]"""
import json, os, subprocess, sys, time
VERIF = os.path.dirname(os.path.dirname(os.path.abspath(__file__)))
def main():
    d = os.path.join(VERIF, 'sensitivity'); sel = sys.argv[1:]
    names = sorted(f[:-5] for f in os.listdir(d) if f.endswith('.diff'))
    if sel: names = [n for n in names if any(n.startswith(s) for s in sel)]
    out = {}
    for n in names:
        props = open(os.path.join(d, n + '.props')).read().split()
        t0 = time.time()
        r = subprocess.run([sys.executable, os.path.join(VERIF, 'tools', 'mutant.py'), os.path.join(d, n + '.diff')] + props, stdout=subprocess.PIPE, stderr=subprocess.STDOUT, text=True)
        caught = {}
        for line in r.stdout.split('\n'):
            w = line.split()
            if len(w) > 3 and w[0] in props and w[1] == 'exit': caught[w[0]] = {'exit': int(w[2]), 'violation_classes': int(w[3])}
        classes = [l.strip() for l in r.stdout.split('\n') if l.strip().startswith('class=')]
        out[n] = {'targets': props, 'result': caught, 'caught': any(v['exit'] == 1 for v in caught.values()), 'classes': sorted(set(c.split()[0] for c in classes)), 'wall_s': round(time.time() - t0, 1)}
        print(n, 'CAUGHT' if out[n]['caught'] else 'MISSED', caught, out[n]['classes'], flush=True)
    p = os.path.join(VERIF, 'evidence', 'sensitivity.json')
    old = json.load(open(p)) if os.path.exists(p) and sel else {}
    old = {k: v for k, v in old.items() if os.path.exists(os.path.join(os.path.dirname(os.path.abspath(__file__)), "..", "sensitivity", k + ".diff"))}
    old.update(out); json.dump(old, open(p, 'w'), indent=1)
    return 0 if all(v['caught'] for v in out.values()) else 1
if __name__ == '__main__': sys.exit(main())
