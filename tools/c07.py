"""C07: fault enumeration on top of simulation. For every base workload the OS calls of a fault-free run are
recorded; then for every call k inside an operation one run refuses exactly that call (single) and one run refuses
every call of that kind from k on until heal_os (persistent)."""
import copy, json, os
KIND = {'mmap': 0, 'munmap': 1, 'mprotect_rw': 2, 'mprotect_none': 3, 'madv_dontneed': 4, 'madv_free': 5}

def jobgen(ctx):
    tier = ctx['tier']
    variants = [0, 3, 5, 5, 7, 10, 11, 10, 11, 11] if tier == 'quick' else list(range(12)) + [5, 10, 11]
    reps = 1 if tier == 'quick' else 3
    builds = ['REL', 'SEC', 'DBG']
    cov = ctx['cov']; cov['bases'] = []; cov['enumerated_calls'] = 0
    n = 0
    # bases: the c07_base variants, and thread-start histories (c07_threadstart with its own random faults removed), in which the
    # first allocator call of a fresh thread is a free of a foreign / abandoned block, an allocation, a realloc, mi_heap_new or a collect
    bases = [('c07_base', rep, vi, v) for rep in range(reps) for vi, v in enumerate(variants)]
    bases += [('c07_threadstart', 0, 50 + i, -1) for i in range(2 if tier == 'quick' else 8)]
    for (bfam, rep, vi, v) in bases:
            for b in builds:
                if bfam == 'c07_base': sd = (ctx['seed_of'](ctx['seed'], 'c07_base', rep * 100 + vi) // 40) * 40 + v + (20 if (vi % 2) else 0)
                else: sd = ctx['seed_of'](ctx['seed'], bfam, vi)
                plan = ctx['dump_plan'](ctx['bdir'], b, bfam, sd)
                if bfam != 'c07_base':
                    for pr in plan['progs']:
                        for o in pr['ops']: o.pop('f', None)
                bp = os.path.join(ctx['tmp'], 'base-%s-%d.json' % (b, sd)); json.dump({'plan': plan}, open(bp, 'w'))
                code, res = ctx['simrun'](ctx['bdir'], b, ['--replay', bp, '--trace'])
                yield (b, bp, bfam, sd)       # the fault-free run itself is part of the batch
                if res.get('status') != 'ok': continue
                seen = {}; calls = []
                for c in res.get('os_log', []):
                    kind, prog, op = c[0], c[1], c[2]
                    if kind not in KIND: continue
                    nth = seen.get((prog, op, kind), 0); seen[(prog, op, kind)] = nth + 1
                    if op < 0 or prog >= len(plan['progs']) or op >= len(plan['progs'][prog]['ops']): continue
                    if b == 'DBG' and kind != 'mmap': continue       # the debug build asserts on failing (de)commit by design
                    calls.append((prog, op, KIND[kind], nth))
                cov['bases'].append({'build': b, 'seed': sd, 'variant': v, 'os_calls_in_ops': len(calls), 'ops': sum(len(p['ops']) for p in plan['progs'])})
                cov['enumerated_calls'] += len(calls)
                # pairs: the first call of two different kinds inside one operation both refused (e.g. the mmap of a fallback and the commit
                # of arena memory): what one failure path leaves behind is met by the other
                byop = {}
                for (prog, op, kind, nth) in calls:
                    if nth == 0: byop.setdefault((prog, op), []).append(kind)
                for (prog, op), kinds in byop.items():
                    ks = sorted(set(kinds))
                    for i in range(len(ks)):
                        for j in range(i + 1, len(ks)):
                            for persistent in (0, 1):
                                p2 = copy.deepcopy(plan)
                                fl = p2['progs'][prog]['ops'][op].setdefault('f', [])
                                fl.append({'kind': ks[i], 'nth': 0, 'err': 12, 'persistent': 0}); fl.append({'kind': ks[j], 'nth': 0, 'err': 12, 'persistent': persistent})
                                p2['family'] = 'c07_enum2'
                                path = os.path.join(ctx['tmp'], 'g-%d.json' % n); n += 1
                                json.dump({'plan': p2}, open(path, 'w'))
                                cov['enumerated_pairs'] = cov.get('enumerated_pairs', 0) + 1
                                yield (b, path, 'c07_enum2', sd)
                for (prog, op, kind, nth) in calls:
                    for persistent in (0, 1):
                        p2 = copy.deepcopy(plan)
                        p2['progs'][prog]['ops'][op].setdefault('f', []).append({'kind': kind, 'nth': nth, 'err': 12, 'persistent': persistent})
                        p2['family'] = 'c07_enum'
                        path = os.path.join(ctx['tmp'], 'f-%d.json' % n); n += 1
                        json.dump({'plan': p2}, open(path, 'w'))
                        yield (b, path, 'c07_enum', sd)
