#!/usr/bin/env python3
"""fix_regress.py [id-substring ...]  --  for every repaired finding (known_findings.json, status fixed) undo that one "fix:" commit
in a scratch copy of /repo (reverse diff of the commit) and run the checks of the properties it is recorded under: the defect must
be reported again. Writes evidence/fix_regress.json. A reverse diff that no longer applies (later commits changed the same lines) is
reported as 'inapplicable', not as a miss."""
import os, sys, json, subprocess, tempfile, re, time
VERIF = os.path.dirname(os.path.dirname(os.path.abspath(__file__)))
def main():
    sel = sys.argv[1:]
    kf = json.load(open(os.path.join(VERIF, 'known_findings.json')))['findings']
    p = os.path.join(VERIF, 'evidence', 'fix_regress.json')
    out = json.load(open(p)) if os.path.exists(p) and sel else {}
    for f in kf:
        if f.get('status') != 'fixed' or not f.get('commit'): continue
        if sel and not any(s in f['id'] for s in sel): continue
        commits = re.findall(r'[0-9a-f]{7,}', f['commit'])
        tmp = tempfile.NamedTemporaryFile('w', suffix='.diff', delete=False, dir='/var/tmp')
        for c in reversed(commits):
            d = subprocess.run(['git', '-C', '/repo', 'diff', c, c + '^', '--', 'src', 'include'], stdout=subprocess.PIPE, text=True).stdout
            tmp.write(d)
        tmp.close()
        t0 = time.time()
        r = subprocess.run([sys.executable, os.path.join(VERIF, 'tools', 'mutant.py'), tmp.name] + f['properties'][:3], stdout=subprocess.PIPE, stderr=subprocess.STDOUT, text=True)
        os.unlink(tmp.name)
        res = {}
        for line in r.stdout.split('\n'):
            m = re.match(r'^(C\d\d) exit (\d+) (\d+) violation classes; .*\((\d+) ok, (\d+) violating', line)
            if m: res[m.group(1)] = {'exit': int(m.group(2)), 'violating_runs': int(m.group(5))}
        if 'PATCH FAILED' in r.stdout: status = 'inapplicable'
        else: status = 'caught' if any(v['exit'] == 1 for v in res.values()) else 'missed'
        classes = sorted(set(l.strip().split()[0] for l in r.stdout.split('\n') if l.strip().startswith('class=')))
        out[f['id']] = {'commit': f['commit'], 'checks': res, 'status': status, 'classes': classes, 'wall_s': round(time.time() - t0, 1)}
        print(f['id'], status.upper(), res, classes[:4], flush=True)
        json.dump(out, open(p, 'w'), indent=1)
    return 0 if all(v['status'] != 'missed' for v in out.values()) else 1
if __name__ == '__main__': sys.exit(main())
